#!/bin/bash
# usage: seedconfirm.sh <patch> <demo_test.go> <pkgdir (e.g. . or index)> <-run regexp>
# Confirms in a scratch worktree of /repo: (1) with the patch the whole existing suite passes, (2) the demo fails
# with the patch, (3) the demo passes without it. Prints one line per step; removes the worktree afterwards.
set -u
export GOFLAGS=-mod=mod GOPROXY=off GOSUMDB=off GOTOOLCHAIN=local
PATCH=$(readlink -f "$1"); DEMO=$(readlink -f "$2"); PKG=$3; RUN=$4
W=/tmp/seedconfirm-$$
git -C /repo worktree add -q "$W" HEAD || exit 2
cd "$W"
if ! git apply "$PATCH"; then echo "APPLY-FAILED"; cd /; git -C /repo worktree remove --force "$W"; exit 3; fi
if go build ./... && go test -vet=off -count=1 ./... > /tmp/seedconfirm-suite.log 2>&1; then echo "suite-with-patch: PASS"; else echo "suite-with-patch: FAIL"; grep -E "^(--- FAIL|FAIL)" /tmp/seedconfirm-suite.log | head -5; fi
cp "$DEMO" "$PKG/zz_seed_demo_test.go"
if go test -vet=off -count=1 -run "$RUN" "./$PKG" > /tmp/seedconfirm-demo1.log 2>&1; then echo "demo-with-patch: PASS (expected FAIL)"; else echo "demo-with-patch: FAIL (as expected)"; fi
git apply -R "$PATCH"
if go test -vet=off -count=1 -run "$RUN" "./$PKG" > /tmp/seedconfirm-demo2.log 2>&1; then echo "demo-without-patch: PASS (as expected)"; else echo "demo-without-patch: FAIL (expected PASS)"; tail -5 /tmp/seedconfirm-demo2.log; fi
cd /; git -C /repo worktree remove --force "$W"
