#!/usr/bin/env python3
"""Regenerates /verif/MANIFEST.json from the table below (one place to edit)."""
import json, os
V = os.path.dirname(os.path.dirname(os.path.abspath(__file__)))
ENV = "GOFLAGS=-mod=mod GOPROXY=off GOSUMDB=off GOTOOLCHAIN=local"
# id -> (category, technique, level text, level note, design ref)
SEQ = "deterministic simulation: seeded single-client operation sequences on the journalling simulated disk under the cooperative scheduler; "
CRASH = "deterministic simulation with fault injection: every journal position of a seeded run becomes a process-crash image, a seeded subset also power-loss images (unsynced tails cut / torn); the real Open runs on each; "
CONC = "deterministic simulation: client tasks interleaved by the seeded scheduler at every lock boundary and file call; "
TB = "Trusts: the simulator (vrewrite import rebinding, vsync lock semantics, vos journal/durability model, vclock), the reference model, tmpfs. Seeded sampling: evidence, not proof."
CHECKS = {
 "C01": ("exploration", SEQ + "reference-map oracle after every step; in a quarter of the runs the process may die between two operations (also inside a batch) and the history continues on the recovered database",
         "Operation sequences x value sizes (aimed at block boundaries as observed in the I/O journal) x configurations; bulk loads of 40..400 keys, keys longer than a block, Fold call-backs that write; every read and periodic full dumps compared with a reference map.",
         TB, "DESIGN.md 4 C01"),
 "C02": ("exploration", SEQ + "restart as a generated step with an independently drawn reader configuration; dump before Close == dump after Open == model",
         "Histories x end offsets (biased to every distance from a block boundary) x (writer, reader) configuration pairs; Open must not fail or panic after a clean Close.",
         TB, "DESIGN.md 4 C02"),
 "C03": ("fault_enumeration", CRASH + "recovered dump must equal a prefix state within the interval the property allows; recovered database must stay usable; a fifth of the runs crash a database used by several clients under the seeded scheduler, judged by a search for a real-time-respecting, downward-closed order of the begun operations",
         "All crash positions of every generated run (process crash) and seeded power-loss cuts (nothing/all/torn/inside a chunk header/1-7 bytes before a block boundary); prefix-interval oracle; usability round after recovery (a Put, fresh batches, a clean restart); schedules x crash positions for concurrent clients incl. a concurrent Merge.",
         TB + " Power loss loses a not-yet-synced tail from the end only; directory operations durable in program order.", "DESIGN.md 4 C03"),
 "C04": ("fault_enumeration", CRASH + "a batch is one mutation of the prefix oracle, so a partially visible batch equals no allowed state; Sync batches must survive power loss; a fifth of the runs: batches committed by several concurrent clients, each batch one atomic step of the order searched for; the wall clock is stepped back across every second recovery that is followed by further batches",
         "All crash positions of batch workloads incl. multi-piece flushes across files; later histories with merges and restarts; schedules x crash positions for concurrent committers.",
         TB + " Same durability model as C03.", "DESIGN.md 4 C04"),
 "C05": ("exploration", SEQ + "layered overlay model for an open batch; concurrent arm: other clients while a batch is open, histories checked with porcupine",
         "Batch op sequences x on-disk placements (values in rotated files) x use-after-commit; interleavings against an open batch.",
         TB, "DESIGN.md 4 C05"),
 "C06": ("exploration", SEQ + "dumps before/after Merge and after the adopting and following restarts, journal-derived layout oracle; concurrent arm: merger vs one-writer-per-key writers",
         "Histories x output shapes (fewer/equal/more files) x restarts; interleavings of writes with the merge scan; adoption must actually happen.",
         TB, "DESIGN.md 4 C06"),
 "C07": ("fault_enumeration", CRASH + "two levels deep for Merge and adoption: every position of the recovery Open is crashed again, then a clean Open; a second Merge after recovering from a crash inside Merge; a fifth of the runs: Merge next to concurrent writers under the seeded scheduler",
         "All crash positions inside Merge and inside the adopting Open, second crash at every position of the retry, reopen-twice idempotence, later history with a second merge; schedules x crash positions of a Merge racing writers.",
         TB + " Process crash only (the property says the process dies).", "DESIGN.md 4 C07"),
 "C08": ("exploration", CONC + "per-key histories (global event stamps) checked with porcupine against a register model; live dump at quiescence == dump after restart",
         "2..16 clients on 1..3 shared keys, optional concurrent Merge; random / sticky / PCT-style bounded-preemption schedules.",
         TB + " porcupine time-outs are inconclusive, never reported.", "DESIGN.md 4 C08"),
 "C09": ("exploration", CONC + "binary built with the Go race detector; scheduler hand-offs invisible to it, vsync emits exactly sync's annotations, so reports are races of the engine's own synchronisation on replayable schedules; plus panics, exact deadlock, undocumented errors",
         "All listed public calls from 2..16 tasks, each index type, tiny files forcing rotations.",
         TB + " TSan shadow memory bounded (4 accesses per word): misses possible per schedule, never false alarms.", "DESIGN.md 4 C09"),
 "C10": ("exploration", SEQ + "frozen sorted-slice cursor model for iterator sessions (forward seeks only); Fold call-backs that overwrite and delete keys during the scan; concurrent arm: snapshot isolation of iterators and Fold against writers via porcupine",
         "Key sets (incl. bulk loads of hundreds of keys) x shard layouts x index types x call sequences x direction x prefixes; writes interleaved after creation and from inside Fold.",
         TB, "DESIGN.md 4 C10"),
 "C11": ("exploration", "deterministic simulation (fault-free, one client) of the exported datafile API on the simulated disk, both back-ends in lock-step; sizes observed at the disk seam",
         "Start offset x end distance grid (thorough: complete sweep of 32768 start offsets x 19 end distances), varint widths, staged flushes, reopen; round-trip, positions, sizes, logical==physical, byte-identical back-ends.",
         TB + " No schedule/clock/fault dimension (stated honestly).", "DESIGN.md 4 C11"),
 "C12": ("fault_enumeration", "deterministic simulation with stored-byte fault injection: all single-bit flips of small trees, seeded header-biased flips, overwrites, truncations, garbage and transplanted whole records on copies of a closed database, and (standard I/O) on the files of an open one; Open/Get/Fold/sequential reader judged",
         "Right value or error, or a whole earlier prefix state (indistinguishable from a torn tail); never foreign bytes, unknown keys, panics or hangs.",
         TB + " Three known findings of one family (a well-formed log that lacks or repeats records: truncation of an older file exactly at a record boundary; a same-length record transplanted where no key check can tell) are recorded in known_findings.json.", "DESIGN.md 4 C12"),
 "C13": ("exploration", SEQ + "unsynced-bytes invariants of the journalled disk model evaluated at every return (Always / Threshold / Sync batch / Sync() / Close() / rotation); a fifth of the runs: several concurrent callers under the seeded scheduler, judged per call on the journal",
         "Every SyncStrategy x BytesPerSync x BatchOptions.Sync x FileIOType over rotating, batching, restarting sequences.",
         TB + " For mmap, flushed means covered by a later msync.", "DESIGN.md 4 C13"),
 "C14": ("exploration", SEQ + "differential: one program under 2..4 configurations on separate simulated disks with the same simulated clock; transcripts (and bytes when the layout is equal) identical",
         "Pairs of configurations over index type, shard count, I/O back-end, DataFileSize, sync strategy.",
         TB + " Merge's return value and Stat sizes are layout and excluded when layout differs.", "DESIGN.md 4 C14"),
 "C15": ("exploration", SEQ + "hostile caller: one reused key buffer and one reused value buffer poisoned after every return, canaries, kept Get results; reference map keeps running",
         "All index types, repeated Batch.Put on one key, arbitrary later Puts; sync.Pool replaced by a deterministic LIFO so pool-mediated aliasing reproduces.",
         TB, "DESIGN.md 4 C15"),
 "C16": ("exploration", CONC + "in-process opener tasks plus one real child process driven in lock-step; Open/Close outcomes checked with porcupine against a single-holder lock model; a janitor damages/repairs an older file so Opens fail after taking the lock; holders use their handle (Merge, Sync, Backup, batch, scans) while others try to open",
         "Interleavings of Open/Close/failing Open by several goroutines and another process; rejected Opens leave journal / directory hash unchanged; directory openable afterwards.",
         TB + " flock(2) semantics equal within and across processes; GC off during a run.", "DESIGN.md 4 C16"),
 "C17": ("exploration", SEQ + "Stat recomputed at every step by scanning the files with the package's own reader; size-limit rule per file; 15% of the runs: concurrent clients under the seeded scheduler, Stat recomputed at quiescence and after the restart",
         "Histories with overwrites, deletes, batches, rotations, merges, restarts; interleavings of racing writers, deleters, batches and a merge.",
         TB, "DESIGN.md 4 C17"),
 "C18": ("exploration", SEQ + "after every successful Merge the hint file is decoded and compared entry by entry with a scan of the merged files; hint-path Open vs scan-path Open on copies; a fifth of the runs: the merge races concurrent writers under the seeded scheduler",
         "Merges x configurations x both I/O types x multi-file outputs.",
         TB, "DESIGN.md 4 C18"),
 "C19": ("exploration", SEQ + "data-type layer under the simulated clock (TTL boundaries hit at expiry-1ns/expiry/expiry+1ns) with restarts; normalised replies vs an abstract-type model",
         "Command sequences over 1..4 keys mixing all five types, deletions, re-creations, restarts; collections grown to hundreds of elements, scores at the edges of float64, lives from microseconds to beyond int64 nanoseconds.",
         TB + " Documented relaxations: emptied collection keeps its type; expired-undeleted string may answer either way to non-string commands.", "DESIGN.md 4 C19"),
 "C20": ("exploration", SEQ + "Backup as a generated step, the copy opened while the source stays open; concurrent arm: backup vs writers, copy content as reads at the Backup interval (porcupine)",
         "Histories x both I/O types x repeated backups (fresh, existing, oddly named destinations, the directory of the previous backup) x large Puts right after an mmap backup x process deaths before the backup.",
         TB, "DESIGN.md 4 C20"),
}
PENDING = {}


def main():
    props = [json.loads(l) for l in open(os.path.join(V, "properties.jsonl"))]
    checks, na = [], []
    for p in props:
        pid = p["id"]
        if pid in CHECKS:
            cat, tech, text, note, ref = CHECKS[pid]
            checks.append({
                "property_id": pid,
                "quick_cmd": f"bin/vcheck {pid} --tier quick",
                "thorough_cmd": f"bin/vcheck {pid} --tier thorough",
                "evidence_file": f"evidence/{pid}.json",
                "replay_cmd_template": f"bin/vcheck {pid} --replay {{path}}",
                "engine": "vsim",
                "level_claimed": {"category": cat, "text": text, "design_ref": ref},
                "level_note": note,
                "technique": tech,
            })
        else:
            na.append({"property_id": pid, "reason": PENDING.get(pid, "check not built yet in this commit (work in progress; the property is applicable, see DESIGN.md section 4)")})
    m = {
        "version": 1,
        "setup_cmd": f"cd /verif && {ENV} go build -o bin/vrewrite ./cmd/vrewrite && {ENV} go build -o bin/vcheck ./cmd/vcheck",
        "hooks": {
            "guard": "verif",
            "enable": "no hook exists in /repo: every check copies /repo's working tree to a scratch directory, rebinds the imports of os/sync/time/syscall/mmap-go/snowflake to the simulator's shadow packages and wraps map ranges (bin/vrewrite), then builds the simulator from that copy",
            "baseline_off_cmd": "cd /repo && go test -vet=off -count=1 ./...",
            "source_commits": [],
            "add_only": True,
        },
        "engines": [{"name": "vsim", "path": "sim/", "serves_properties": sorted(CHECKS), "kind_free_text": "deterministic simulator: seeded cooperative scheduler (vrt, vsync), journalling simulated disk with crash-image reconstruction (vos), simulated clock (vclock), harness with reference models and oracles (h), driver bin/vcheck"}],
        "checks": checks,
        "not_applicable": na,
        "notes": "All checks use one technique: deterministic simulation with fault injection. Exit 0 held / 1 VIOLATION / 2 infrastructure. VERIF_SEED selects the base seed, VERIF_RUNS overrides the run budget.",
    }
    json.dump(m, open(os.path.join(V, "MANIFEST.json"), "w"), indent=1)
    print("checks:", len(checks), "not_applicable:", len(na))


main()
