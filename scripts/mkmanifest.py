#!/usr/bin/env python3
"""Regenerates /verif/MANIFEST.json from the table below (one place to edit)."""
import json, os
V = os.path.dirname(os.path.dirname(os.path.abspath(__file__)))
ENV = "GOFLAGS=-mod=mod GOPROXY=off GOSUMDB=off GOTOOLCHAIN=local"
# id -> (category, technique, level text, level note, design ref)
CHECKS = {
 "C01": ("exploration", "deterministic simulation: seeded single-client operation sequences on the simulated disk, reference-map oracle after every step",
         "Seeded exploration of operation sequences x value sizes x configurations (sizes aimed at block boundaries as observed in the I/O journal); every read is compared with a reference map, full dumps every few steps. Sampling, not proof: right for a universal claim over sequences and sizes.",
         "Trusts the reference map, the rewriting of os/sync/time imports, tmpfs; single client, no faults (fault-free arm kept separate on purpose).", "DESIGN.md section 4, C01"),
}
PENDING = {}


def main():
    props = [json.loads(l) for l in open(os.path.join(V, "properties.jsonl"))]
    checks, na = [], []
    for p in props:
        pid = p["id"]
        if pid in CHECKS:
            cat, tech, text, note, ref = CHECKS[pid]
            checks.append({
                "property_id": pid,
                "quick_cmd": f"bin/vcheck {pid} --tier quick",
                "thorough_cmd": f"bin/vcheck {pid} --tier thorough",
                "evidence_file": f"evidence/{pid}.json",
                "replay_cmd_template": f"bin/vcheck {pid} --replay {{path}}",
                "engine": "vsim",
                "level_claimed": {"category": cat, "text": text, "design_ref": ref},
                "level_note": note,
                "technique": tech,
            })
        else:
            na.append({"property_id": pid, "reason": PENDING.get(pid, "check not built yet in this commit (work in progress; the property is applicable, see DESIGN.md section 4)")})
    m = {
        "version": 1,
        "setup_cmd": f"cd /verif && {ENV} go build -o bin/vrewrite ./cmd/vrewrite && {ENV} go build -o bin/vcheck ./cmd/vcheck",
        "hooks": {
            "guard": "verif",
            "enable": "no hook exists in /repo: every check copies /repo's working tree to a scratch directory, rebinds the imports of os/sync/time/syscall/mmap-go/snowflake to the simulator's shadow packages and wraps map ranges (bin/vrewrite), then builds the simulator from that copy",
            "baseline_off_cmd": "cd /repo && go test -vet=off -count=1 ./...",
            "source_commits": [],
            "add_only": True,
        },
        "engines": [{"name": "vsim", "path": "sim/", "serves_properties": sorted(CHECKS), "kind_free_text": "deterministic simulator: seeded cooperative scheduler (vrt, vsync), journalling simulated disk with crash-image reconstruction (vos), simulated clock (vclock), harness with reference models and oracles (h), driver bin/vcheck"}],
        "checks": checks,
        "not_applicable": na,
        "notes": "All checks use one technique: deterministic simulation with fault injection. Exit 0 held / 1 VIOLATION / 2 infrastructure. VERIF_SEED selects the base seed, VERIF_RUNS overrides the run budget.",
    }
    json.dump(m, open(os.path.join(V, "MANIFEST.json"), "w"), indent=1)
    print("checks:", len(checks), "not_applicable:", len(na))


main()
