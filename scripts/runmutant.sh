#!/bin/bash
# usage: runmutant.sh <patch-file> <property> [runs]   -> prints the check's verdict against a patched scratch copy
# of /repo. Nothing under /repo or /verif/evidence is touched; the scratch copy is removed afterwards.
set -u
PATCH=$(readlink -f "$1"); PROP=$2; RUNS=${3:-}
VERIF=$(cd "$(dirname "$0")/.." && pwd)
W=$(mktemp -d /dev/shm/mut-XXXXXX)
rsync -a --exclude .git /repo/ "$W/repo/"
if ! (cd "$W/repo" && patch -p1 -s < "$PATCH"); then echo "PATCH-FAILED $PATCH"; rm -rf "$W"; exit 3; fi
mkdir -p "$W/out"
if [ -n "$RUNS" ]; then export VERIF_RUNS=$RUNS; fi
VERIF_REPO="$W/repo" VERIF_OUT="$W/out" "$VERIF/bin/vcheck" "$PROP" --tier "${VERIF_TIER:-quick}" > "$W/log" 2>&1
code=$?
echo "mutant=$(basename "$PATCH") property=$PROP exit=$code $(grep -m1 -E '^(VIOLATION|OK|INFRA|NONDET|KNOWN)' "$W/log" | cut -c1-150)"
grep -A2 '^VIOLATION' "$W/log" | sed -n 2,3p | cut -c1-400
if [ -n "${KEEP_REPLAY:-}" ]; then cp "$W"/out/replays/*.json "$KEEP_REPLAY"/ 2>/dev/null; fi
rm -rf "$W"
exit $code
