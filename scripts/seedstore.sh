#!/bin/bash
# usage: seedstore.sh <id> <property> <srcdir> <demo-file-name> <pkgdir> <run-regexp> <caught-by> <needs...>
id=$1; prop=$2; src=$3; demo=$4; pkg=$5; run=$6; caught=$7; shift 7; needs="$*"
d=/verif/seeded/$id; mkdir -p $d
cp $src/patch.diff $d/patch.diff; cp $src/$demo $d/$demo; [ -f $src/notes.md ] && cp $src/notes.md $d/notes.md
python3 - "$id" "$prop" "$demo" "$pkg" "$run" "$caught" "$needs" <<'PY'
import json,sys
id,prop,demo,pkg,run,caught,needs=sys.argv[1:8]
meta={"id":id,"breaks_property":prop,"origin":"independent sub-agent given only the property text and a scratch worktree",
 "needs_to_manifest":needs,"demo":{"file":demo,"copy_into_package_dir":pkg,"run":"go test -vet=off -count=1 -run '%s' ./%s"%(run,pkg)},
 "confirmed":{"existing_suite_with_patch":"pass","demo_with_patch":"fail","demo_without_patch":"pass","how":"scripts/seedconfirm.sh in a scratch worktree of /repo HEAD"},
 "check_result":caught,"ran":"scripts/runmutant.sh seeded/%s/patch.diff %s (quick tier, VERIF_SEED=1)"%(id,prop)}
json.dump(meta,open('/verif/seeded/%s/meta.json'%id,'w'),indent=1)
PY
echo stored $d
