#!/bin/bash
# developer helper: build simbin from /repo (or $1) into /dev/shm/vdev
export GOFLAGS=-mod=mod GOPROXY=off GOSUMDB=off GOTOOLCHAIN=local
REPO=${1:-/repo}
rm -rf /dev/shm/vdev; /verif/scripts/mkscratch.sh $REPO /dev/shm/vdev 2>&1 | grep -v warning
cd /dev/shm/vdev/src && go vet ./vsim/... 2>&1 | head -40; go build -o ../simbin ./vsim/cmd/simbin
