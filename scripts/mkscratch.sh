#!/bin/bash
# usage: mkscratch.sh <repo> <scratchdir>
# Copies the working tree of <repo> into <scratchdir>/src, installs the simulator seams (vrewrite) and copies
# the simulator sources into <scratchdir>/src/vsim. Exit 2 on any failure (infrastructure, never a verdict).
set -u
export GOFLAGS=-mod=mod GOPROXY=off GOSUMDB=off GOTOOLCHAIN=local GONOSUMDB=* GONOSUMCHECK=1 GOFLAGS=-mod=mod
REPO=${1:?repo}; SCR=${2:?scratch}
VERIF=$(cd "$(dirname "$0")/.." && pwd)
mkdir -p "$SCR/src" || exit 2
rsync -a --exclude .git --exclude '*_test.go' "$REPO"/ "$SCR/src"/ || exit 2
"$VERIF/bin/vrewrite" "$SCR/src" . index datafile fio utils datatype || exit 2
mkdir -p "$SCR/src/vsim" || exit 2
rsync -a --exclude go.mod --exclude go.sum "$VERIF/sim"/ "$SCR/src/vsim"/ || exit 2
cd "$SCR/src" || exit 2
# The lock library (gofrs/flock) is third-party code the engine's mutual exclusion rests on: a copy of the version
# the repository requires becomes a package of the scratch module with the same seams (os, sync, x/sys/unix
# rebound), so that interleavings inside it - between opening the lock file and locking it - are scheduled too.
# vrewrite has already pointed the engine's import of github.com/gofrs/flock at this copy.
FLOCKDIR=$(go list -m -f '{{.Dir}}' github.com/gofrs/flock 2>/dev/null)
if [ -z "$FLOCKDIR" ] || [ ! -f "$FLOCKDIR/flock_unix.go" ]; then echo "mkscratch: cannot locate gofrs/flock in the module cache"; exit 2; fi
mkdir -p vsim/flockcopy || exit 2
for f in flock.go flock_unix.go; do
  sed -e 's#^\t"os"$#\t"github.com/XiXi-2024/xixi-kv/vsim/shim/os"#' \
      -e 's#^\t"sync"$#\t"github.com/XiXi-2024/xixi-kv/vsim/shim/sync"#' \
      -e 's#^\t"golang.org/x/sys/unix"$#\t"github.com/XiXi-2024/xixi-kv/vsim/shim/unix"#' \
      "$FLOCKDIR/$f" > "vsim/flockcopy/$f" || exit 2
done
if ! grep -q 'vsim/shim/os' vsim/flockcopy/flock.go || ! grep -q 'vsim/shim/unix' vsim/flockcopy/flock_unix.go; then
  echo "mkscratch: the lock library does not have the expected imports (version changed?)"; exit 2
fi
go mod edit -require github.com/anishathalye/porcupine@v1.3.0 || exit 2
exit 0
