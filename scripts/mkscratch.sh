#!/bin/bash
# usage: mkscratch.sh <repo> <scratchdir>
# Copies the working tree of <repo> into <scratchdir>/src, installs the simulator seams (vrewrite) and copies
# the simulator sources into <scratchdir>/src/vsim. Exit 2 on any failure (infrastructure, never a verdict).
set -u
export GOFLAGS=-mod=mod GOPROXY=off GOSUMDB=off GOTOOLCHAIN=local GONOSUMDB=* GONOSUMCHECK=1 GOFLAGS=-mod=mod
REPO=${1:?repo}; SCR=${2:?scratch}
VERIF=$(cd "$(dirname "$0")/.." && pwd)
mkdir -p "$SCR/src" || exit 2
rsync -a --exclude .git --exclude '*_test.go' "$REPO"/ "$SCR/src"/ || exit 2
"$VERIF/bin/vrewrite" "$SCR/src" . index datafile fio utils datatype || exit 2
mkdir -p "$SCR/src/vsim" || exit 2
rsync -a --exclude go.mod --exclude go.sum "$VERIF/sim"/ "$SCR/src/vsim"/ || exit 2
cd "$SCR/src" || exit 2
go mod edit -require github.com/anishathalye/porcupine@v1.3.0 || exit 2
exit 0
