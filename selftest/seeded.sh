#!/bin/bash
# Re-validation of the seeded changes (seeded/S*/): each patch is applied to a scratch copy of /repo and the check of
# the property it breaks (or, where meta.json says caught_by, the check that catches it instead) must report a VIOLATION
# within the quick budget (base seed 1). usage: seeded.sh [filter-regex]
cd "$(dirname "$0")/.."
pass=0; fail=0
for d in seeded/S*/; do
  id=$(basename "$d")
  if [ -n "${1:-}" ] && ! echo "$id" | grep -Eq "$1"; then continue; fi
  if python3 -c "import json,sys; sys.exit(0 if json.load(open('$d/meta.json')).get('missed') else 1)"; then echo "KNOWN-MISS $id (recorded as missed and not addressed, see meta.json)"; continue; fi
  prop=$(python3 -c "import json,sys; m=json.load(open('$d/meta.json')); print(m.get('caught_by', m['breaks_property']))")
  out=$(scripts/runmutant.sh "$d/patch.diff" "$prop" 2>&1); code=$?
  if [ $code -eq 1 ]; then pass=$((pass+1)); echo "CAUGHT  $id $prop :: $(echo "$out" | sed -n 2p | cut -c1-140)";
  else fail=$((fail+1)); echo "MISSED($code) $id $prop :: $(echo "$out" | head -1 | cut -c1-200)"; fi
done
echo "caught=$pass missed=$fail"
