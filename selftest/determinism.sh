#!/bin/bash
# Determinism self-test: every (property, run index) is executed in several fresh processes under GOMAXPROCS 1, 4
# and 16; everything a run reports (executed case, outcome, counters, interleaving hashes, state hashes, journal
# hash with event stamps, simulated time, event count) must be byte-identical. usage: determinism.sh [runs-per-prop] [props...]
cd "$(dirname "$0")/.."
N=${1:-40}; shift
PROPS=${*:-C01 C02 C03 C04 C05 C06 C07 C08 C09 C10 C11 C12 C13 C14 C15 C16 C17 C18 C19 C20}
export GOFLAGS=-mod=mod GOPROXY=off GOSUMDB=off GOTOOLCHAIN=local
S=$(mktemp -d /dev/shm/det-XXXXXX)
scripts/mkscratch.sh /repo "$S" >/dev/null 2>&1 || { echo "build failed"; exit 2; }
(cd "$S/src" && go build -o ../simbin ./vsim/cmd/simbin) || exit 2
bad=0; total=0
norm() { python3 -c "
import sys,json
r=json.load(sys.stdin); r.pop('wallus',None); print(json.dumps(r,sort_keys=True))"; }
for p in $PROPS; do
  for i in $(seq 0 $((N-1))); do
    idx=$((i*37+11))
    ref=""
    for gmp in 1 4 16 16 1; do
      out=$(GOMAXPROCS=$gmp "$S/simbin" gen $p quick 1 $idx 2>/dev/null | norm | md5sum)
      total=$((total+1))
      if [ -z "$ref" ]; then ref=$out; elif [ "$out" != "$ref" ]; then bad=$((bad+1)); echo "NONDETERMINISTIC $p idx=$idx GOMAXPROCS=$gmp"; break; fi
    done
  done
  echo "$p done (bad so far: $bad)"
done
rm -rf "$S"
echo "executions=$total divergent=$bad"
[ $bad -eq 0 ]
