#!/bin/bash
# Soundness of the race oracle of C09: see sim/selftest/racetoy/main.go.
cd "$(dirname "$0")/../sim" || exit 2
export GOFLAGS=-mod=mod GOPROXY=off GOSUMDB=off GOTOOLCHAIN=local
B=$(mktemp -d /dev/shm/racetoy-XXXXXX)
go build -race -o "$B/toy" ./selftest/racetoy || { echo "build failed"; rm -rf "$B"; exit 2; }
ok=1
for gmp in 1 4 16; do
  out=$(GOMAXPROCS=$gmp GORACE="halt_on_error=0" "$B/toy" unprotected 2>&1)
  if echo "$out" | grep -q "DATA RACE"; then echo "unprotected GOMAXPROCS=$gmp: race reported (expected)"; else echo "unprotected GOMAXPROCS=$gmp: NO report (BAD)"; ok=0; fi
  for m in mutex rwmutex phases; do
    out=$(GOMAXPROCS=$gmp "$B/toy" $m 2>&1)
    if echo "$out" | grep -q "DATA RACE"; then echo "$m GOMAXPROCS=$gmp: race reported (BAD)"; ok=0; else echo "$m GOMAXPROCS=$gmp: silent (expected): $(echo "$out" | tail -1)"; fi
  done
done
rm -rf "$B"
[ $ok -eq 1 ] && echo "racecheck: OK" || { echo "racecheck: FAILED"; exit 1; }
