#!/bin/bash
# Sensitivity self-test: every listed change breaks the named property while compiling and keeping the 63 tests
# green; the named check must report a VIOLATION on it within the quick budget. usage: mutants.sh [filter-regex]
cd "$(dirname "$0")/.."
pass=0; fail=0
while IFS=$'\t' read -r patch prop note; do
  case "$patch" in \#*|"") continue;; esac
  if [ -n "${1:-}" ] && ! echo "$patch $prop" | grep -Eq "$1"; then continue; fi
  out=$(scripts/runmutant.sh "mutants/$patch" "$prop" 2>&1); code=$?
  if [ $code -eq 1 ]; then pass=$((pass+1)); echo "CAUGHT  $patch $prop :: $(echo "$out" | sed -n 2p | cut -c1-160)";
  else fail=$((fail+1)); echo "MISSED($code) $patch $prop ($note) :: $(echo "$out" | head -1 | cut -c1-200)"; fi
done < selftest/mutants.tsv
echo "caught=$pass missed=$fail"
