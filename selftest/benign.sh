#!/bin/bash
# No-false-alarm self-test: behaviour-preserving changes to the engine (selftest/benign/*.patch: more syncing than the
# policy asks for, extra defensive copies, earlier rotation, a redundant flush) must leave the named checks green.
# usage: benign.sh [filter-regex]
cd "$(dirname "$0")/.."
declare -A CHECKS=(
 [b1-sync-every-write]="C13 C03 C04 C01"
 [b2-put-clones-key-and-value]="C15 C01 C14"
 [b3-rotate-one-record-early]="C17 C14 C06 C02 C13"
 [b4-iterator-key-copied]="C10 C15 C14"
 [b5-merge-syncs-active-file-twice]="C06 C07 C03 C13"
 [b6-batch-ids-from-the-restored-counter]="C04 C03 C05 C19"
 [b7-backup-clears-all-old-data-files]="C20"
 [b8-get-holds-the-read-lock-throughout]="C08 C09 C01 C10"
)
ok=0; bad=0
for f in selftest/benign/*.patch; do
  n=$(basename "$f" .patch)
  if [ -n "${1:-}" ] && ! echo "$n" | grep -Eq "$1"; then continue; fi
  for p in ${CHECKS[$n]}; do
    out=$(scripts/runmutant.sh "$f" "$p" 2>&1); code=$?
    if [ $code -eq 0 ]; then ok=$((ok+1)); echo "GREEN  $n $p"; else bad=$((bad+1)); echo "ALARM($code) $n $p :: $(echo "$out" | head -3 | cut -c1-300)"; fi
  done
done
echo "green=$ok alarms=$bad"
[ $bad -eq 0 ]
