package vrt

import (
	"cmp"
	"fmt"
	"sort"
)

// MapSeed seeds the permutation used for map iteration in this run (set by the harness per run).
var MapSeed uint64 = 1
var mapIterCount uint64

//go:norace
func nextMapPerm(n int) []int {
	mapIterCount++
	r := NewRand(Mix(MapSeed, mapIterCount))
	return r.Perm(n)
}

// ResetMapIter restarts the per-run map-iteration stream.
func ResetMapIter(seed uint64) { MapSeed = seed; mapIterCount = 0 }

// MapIter replaces `range m` over a map in the rewritten engine: the keys are visited in a seeded permutation of
// their sorted order, so that iteration order is deterministic per run yet varies between runs. The map is read
// here by the calling (engine) goroutine with ordinary instrumented accesses, so the race detector still sees
// the iteration as a read of the map.
func MapIter[K comparable, V any](m map[K]V) func(yield func(K, V) bool) {
	return func(yield func(K, V) bool) {
		keys := make([]K, 0, len(m))
		for k := range m {
			keys = append(keys, k)
		}
		sortKeys(keys)
		p := nextMapPerm(len(keys))
		for _, i := range p {
			k := keys[i]
			v, ok := m[k]
			if !ok { // deleted during iteration: Go semantics say it is not produced
				continue
			}
			if !yield(k, v) {
				return
			}
		}
	}
}

func sortKeys[K comparable](keys []K) {
	switch ks := any(keys).(type) {
	case []string:
		sort.Strings(ks)
	case []int:
		sort.Ints(ks)
	case []uint32:
		sort.Slice(ks, func(i, j int) bool { return cmp.Less(ks[i], ks[j]) })
	case []uint64:
		sort.Slice(ks, func(i, j int) bool { return cmp.Less(ks[i], ks[j]) })
	case []int64:
		sort.Slice(ks, func(i, j int) bool { return cmp.Less(ks[i], ks[j]) })
	case []uint:
		sort.Slice(ks, func(i, j int) bool { return cmp.Less(ks[i], ks[j]) })
	case []int32:
		sort.Slice(ks, func(i, j int) bool { return cmp.Less(ks[i], ks[j]) })
	default:
		sort.Slice(keys, func(i, j int) bool { return fmt.Sprint(keys[i]) < fmt.Sprint(keys[j]) })
	}
}
