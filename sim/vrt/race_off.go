//go:build !race

package vrt

// RaceBuild reports whether the binary was built with the race detector.
const RaceBuild = false

func RaceDisable()            {}
func RaceEnable()             {}
func RaceAcquire(p *int)      {}
func RaceRelease(p *int)      {}
func RaceReleaseMerge(p *int) {}
