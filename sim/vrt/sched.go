package vrt

import (
	"fmt"
	"os"
	"runtime/debug"
	"strings"
)

// PointKind classifies a scheduling point.
type PointKind uint8

const (
	PStart PointKind = iota
	PEnd
	PLock
	PUnlock
	PRLock
	PRUnlock
	PIO
	POp
	PSleep
	PBlock
	PUser
)

var kindNames = [...]string{"start", "end", "lock", "unlock", "rlock", "runlock", "io", "op", "sleep", "block", "user"}

func (k PointKind) String() string { return kindNames[k] }

// Cond is a blocking predicate. Implementations must have a //go:norace Ready method and must not be closures
// (closures cannot carry the norace directive, and the predicate is evaluated by whichever task is deciding).
type Cond interface{ Ready() bool }

// Task is one simulated client: a real goroutine that only runs while it is the scheduler's current task.
type Task struct {
	ID     int
	Name   string
	fn     func()
	wake   chan struct{}
	done   bool
	cond   Cond
	Panic  string // non-empty if fn panicked (fallback; harness code normally recovers per operation)
	prio   int    // PCT priority
	Points uint64
}

// Policy selects how the next task is chosen at a scheduling point.
type Policy struct {
	Mode    string  `json:"mode"`              // "seq" | "random" | "sticky" | "pct"
	Seed    uint64  `json:"seed"`              // seed of the scheduler's own PRNG stream
	Sticky  float64 `json:"sticky,omitempty"`  // "sticky": probability of staying on the running task
	Depth   int     `json:"depth,omitempty"`   // "pct": number of priority change points
	Horizon int     `json:"horizon,omitempty"` // "pct": change points are drawn in [0, Horizon) decisions
	Choices []int   `json:"choices,omitempty"` // explicit schedule: task id per multi-way decision; overrides Mode
}

// Sched is the process-global cooperative scheduler of one simulation phase.
type Sched struct {
	tasks     []*Task
	cur       *Task
	mainCh    chan struct{}
	joinAddr  int
	pol       Policy
	rng       *Rand
	decisions int
	changeAt  map[int]bool
	replayPos int

	Event     uint64 // global event sequence number: incremented at every scheduling point
	TraceHash uint64
	Switches  int
	Waits     int   // times a task had to block on a lock
	Recorded  []int // task id chosen at each multi-way decision
	Deadlock  string
	Fatal     string
	StepCap   uint64
	CapHit    bool
	LogOn     bool
	Log       []string
	aborted   bool
}

// S is the scheduler of the simulation phase in progress, nil outside a phase.
var S *Sched

// EventBase carries the event counter across phases of one run so stamps stay globally ordered.
var EventBase uint64

type fatalSentinel struct{ msg string }

// IsFatal reports whether a recovered panic value is the simulator's "fatal runtime error" sentinel.
func IsFatal(r interface{}) (string, bool) {
	if f, ok := r.(fatalSentinel); ok {
		return f.msg, true
	}
	return "", false
}

// NewSched creates a scheduler for one phase.
func NewSched(pol Policy) *Sched {
	s := &Sched{pol: pol, rng: NewRand(Mix(pol.Seed, 0x5c4ed)), mainCh: make(chan struct{}, 1), StepCap: 50_000_000}
	s.Event = EventBase
	if traceLogPath != "" {
		s.LogOn = true
	}
	return s
}

// traceLogPath (env VSIM_TRACELOG): developer aid, every scheduling point of every phase is appended to this file.
var traceLogPath = os.Getenv("VSIM_TRACELOG")

func (s *Sched) flushLog() {
	if traceLogPath == "" || len(s.Log) == 0 {
		return
	}
	f, err := os.OpenFile(traceLogPath, os.O_CREATE|os.O_APPEND|os.O_WRONLY, 0o644)
	if err != nil {
		return
	}
	defer f.Close()
	f.WriteString("--- phase\n" + strings.Join(s.Log, "\n") + "\n")
}

// Go registers a task. All tasks must be registered before Run.
func (s *Sched) Go(name string, fn func()) *Task {
	t := &Task{ID: len(s.tasks), Name: name, fn: fn, wake: make(chan struct{}, 1)}
	s.tasks = append(s.tasks, t)
	return t
}

// Run executes all registered tasks to completion (or deadlock / fatal error) under the policy.
// It is called from the harness goroutine, which does not itself run engine code while Run is active.
func (s *Sched) Run() {
	if len(s.tasks) == 0 {
		return
	}
	if s.pol.Mode == "pct" {
		s.initPCT()
	}
	S = s
	for _, t := range s.tasks {
		go s.taskMain(t)
	}
	first := s.pickInitial()
	RaceDisable()
	s.cur = first
	first.wake <- struct{}{}
	<-s.mainCh
	RaceEnable()
	RaceAcquire(&s.joinAddr)
	EventBase = s.Event
	S = nil
	s.flushLog()
}

func (s *Sched) taskMain(t *Task) {
	RaceDisable()
	<-t.wake
	RaceEnable()
	s.runTask(t)
	RaceReleaseMerge(&s.joinAddr)
	s.finish(t)
}

func (s *Sched) runTask(t *Task) {
	defer func() {
		if r := recover(); r != nil {
			if msg, ok := IsFatal(r); ok {
				setPanic(t, "FATAL: "+msg)
				return
			}
			setPanic(t, fmt.Sprintf("%v\n%s", r, trimStack(string(debug.Stack()))))
		}
	}()
	t.fn()
}

//go:norace
func setPanic(t *Task, s string) { t.Panic = s }

func trimStack(st string) string {
	lines := strings.Split(st, "\n")
	if len(lines) > 40 {
		lines = lines[:40]
	}
	return strings.Join(lines, "\n")
}

//go:norace
func (s *Sched) pickInitial() *Task {
	en := s.enabled(nil)
	return s.choose(en, nil)
}

// finish marks the task done and hands control to another task or back to Run.
//
//go:norace
func (s *Sched) finish(t *Task) {
	t.done = true
	s.Event++
	s.note(t, PEnd, 0)
	if s.aborted {
		s.toMain()
		return
	}
	en := s.enabled(nil)
	if len(en) == 0 {
		if !s.allDone() {
			s.Deadlock = s.describeBlocked()
			s.aborted = true
		}
		s.toMain()
		return
	}
	next := s.choose(en, nil)
	s.cur = next
	s.Switches++
	RaceDisable()
	next.wake <- struct{}{}
	RaceEnable()
}

//go:norace
func (s *Sched) toMain() {
	s.cur = nil
	RaceDisable()
	s.mainCh <- struct{}{}
	RaceEnable()
}

//go:norace
func (s *Sched) allDone() bool {
	for _, t := range s.tasks {
		if !t.done {
			return false
		}
	}
	return true
}

//go:norace
func (s *Sched) describeBlocked() string {
	var b strings.Builder
	for _, t := range s.tasks {
		if !t.done {
			fmt.Fprintf(&b, "task %d(%s) blocked on %s; ", t.ID, t.Name, condName(t.cond))
		}
	}
	return b.String()
}

func condName(c Cond) string {
	if c == nil {
		return "<runnable>"
	}
	if n, ok := c.(interface{ Name() string }); ok {
		return n.Name()
	}
	return fmt.Sprintf("%T", c)
}

//go:norace
func (s *Sched) enabled(skip *Task) []*Task {
	var en []*Task
	for _, t := range s.tasks {
		if t.done || t == skip {
			continue
		}
		if t.cond != nil && !t.cond.Ready() {
			continue
		}
		en = append(en, t)
	}
	return en
}

//go:norace
func (s *Sched) initPCT() {
	n := len(s.tasks)
	p := s.rng.Perm(n)
	for i, t := range s.tasks {
		t.prio = p[i] + s.pol.Depth + 1
	}
	s.changeAt = map[int]bool{}
	h := s.pol.Horizon
	if h <= 0 {
		h = 200
	}
	for i := 0; i < s.pol.Depth; i++ {
		s.changeAt[s.rng.Intn(h)] = true
	}
}

// choose picks the next task among the enabled ones. cur is the task that is at the scheduling point (nil if
// it is blocked or finished).
//
//go:norace
func (s *Sched) choose(en []*Task, cur *Task) *Task {
	if len(en) == 1 {
		return en[0]
	}
	var pick *Task
	if s.pol.Choices != nil {
		if s.replayPos < len(s.pol.Choices) {
			id := s.pol.Choices[s.replayPos]
			s.replayPos++
			for _, t := range en {
				if t.ID == id {
					pick = t
				}
			}
			if pick == nil {
				if id < 0 {
					id = -id
				}
				pick = en[id%len(en)]
			}
		} else {
			// choices exhausted: continue non-preemptively
			pick = en[0]
			for _, t := range en {
				if t == cur {
					pick = t
				}
			}
		}
	} else {
		switch s.pol.Mode {
		case "random":
			pick = en[s.rng.Intn(len(en))]
		case "sticky":
			if cur != nil && s.rng.Float64() < s.pol.Sticky {
				for _, t := range en {
					if t == cur {
						pick = t
					}
				}
			}
			if pick == nil {
				pick = en[s.rng.Intn(len(en))]
			}
		case "pct":
			if s.changeAt[s.decisions] && cur != nil {
				cur.prio = -s.decisions // lowest so far
			}
			pick = en[0]
			for _, t := range en {
				if t.prio > pick.prio {
					pick = t
				}
			}
		default: // "seq": run the current task until it blocks or ends, then the lowest id
			pick = en[0]
			for _, t := range en {
				if t == cur {
					pick = t
				}
			}
		}
	}
	s.decisions++
	s.Recorded = append(s.Recorded, pick.ID)
	return pick
}

//go:norace
func (s *Sched) note(t *Task, k PointKind, obj uint32) {
	s.TraceHash = (s.TraceHash ^ (uint64(t.ID)<<24 | uint64(k)<<16 | uint64(obj&0xffff))) * 1099511628211
	if s.LogOn {
		s.Log = append(s.Log, fmt.Sprintf("%d t%d %s %d", s.Event, t.ID, kindNames[k], obj))
	}
}

// Point is a scheduling point: the running task offers the scheduler the chance to run another task.
// Outside a simulation phase it is a no-op.
//
//go:norace
func Point(k PointKind, obj uint32) {
	s := S
	if s == nil || s.cur == nil {
		return
	}
	t := s.cur
	s.Event++
	t.Points++
	s.note(t, k, obj)
	if s.Event-EventBase > s.StepCap {
		s.CapHit = true
		s.abortRun(t, "step cap")
	}
	if len(s.tasks) == 1 {
		return
	}
	en := s.enabled(nil)
	next := s.choose(en, t)
	if next == t {
		return
	}
	s.switchTo(t, next)
}

//go:norace
func (s *Sched) switchTo(t, next *Task) {
	s.cur = next
	s.Switches++
	RaceDisable()
	next.wake <- struct{}{}
	<-t.wake
	RaceEnable()
}

// Block parks the running task until c.Ready() holds. If nobody else can run either, the simulation has
// deadlocked: decided exactly, not by a timer.
//
//go:norace
func Block(c Cond) {
	if c.Ready() {
		return
	}
	s := S
	if s == nil || s.cur == nil {
		panic("vrt: blocking operation outside a simulated task would block forever: " + condName(c))
	}
	t := s.cur
	t.cond = c
	s.Waits++
	s.Event++
	s.note(t, PBlock, 0)
	en := s.enabled(t)
	if len(en) == 0 {
		s.Deadlock = s.describeBlocked()
		s.aborted = true
		s.cur = nil
		// what this task wrote (the description above, its own harness-side state) happens before what the harness
		// goroutine reads after Run returns: the hand-over below is invisible to the race detector, this edge is not
		RaceReleaseMerge(&s.joinAddr)
		RaceDisable()
		s.mainCh <- struct{}{}
		<-t.wake // never resumed
		RaceEnable()
		return
	}
	next := s.choose(en, nil)
	s.switchTo(t, next)
	t.cond = nil
}

// abortRun ends the phase from inside a task: control returns to Run, the calling goroutine parks forever.
//
//go:norace
func (s *Sched) abortRun(t *Task, why string) {
	s.aborted = true
	if s.Fatal == "" {
		s.Fatal = why
	}
	s.cur = nil
	RaceDisable()
	s.mainCh <- struct{}{}
	<-t.wake
	RaceEnable()
}

// FatalError models a Go runtime fatal error (e.g. "sync: Unlock of unlocked RWMutex"), which in production
// kills the process and cannot be recovered. The phase is aborted and the message kept.
//
//go:norace
func FatalError(msg string) {
	s := S
	if s == nil || s.cur == nil {
		panic(fatalSentinel{msg})
	}
	s.abortRun(s.cur, "fatal error: "+msg)
}

// CurTask returns the id of the running task, or -1.
//
//go:norace
func CurTask() int {
	if S == nil || S.cur == nil {
		return -1
	}
	return S.cur.ID
}

// Stamp returns the current global event number (for history stamps), bumping it so stamps are unique.
//
//go:norace
func Stamp() uint64 {
	if S == nil {
		EventBase++
		return EventBase
	}
	S.Event++
	return S.Event
}

// Tasks returns the registered tasks (for inspection after Run).
func (s *Sched) Tasks() []*Task { return s.tasks }
