// Package vrt is the core of the deterministic simulator: the seeded PRNG, the cooperative scheduler that
// decides which client task runs, the global event counter, and deterministic map iteration.
package vrt

// Rand is a small deterministic PRNG (splitmix64). It is the only source of randomness in a simulation.
// Not safe for concurrent use: only the running task or the scheduler touches it, never both at once.
type Rand struct{ s uint64 }

func NewRand(seed uint64) *Rand { return &Rand{s: seed} }

// Mix derives an independent stream seed from a seed and a label.
func Mix(seed uint64, vals ...uint64) uint64 {
	x := seed
	for _, v := range vals {
		x ^= v + 0x9e3779b97f4a7c15 + (x << 6) + (x >> 2)
		x = sm64(&x)
	}
	return x
}

// HashString is FNV-1a 64.
func HashString(s string) uint64 {
	h := uint64(14695981039346656037)
	for i := 0; i < len(s); i++ {
		h ^= uint64(s[i])
		h *= 1099511628211
	}
	return h
}

//go:norace
func sm64(s *uint64) uint64 {
	*s += 0x9e3779b97f4a7c15
	z := *s
	z = (z ^ (z >> 30)) * 0xbf58476d1ce4e5b9
	z = (z ^ (z >> 27)) * 0x94d049bb133111eb
	return z ^ (z >> 31)
}

//go:norace
func (r *Rand) Uint64() uint64 { return sm64(&r.s) }

//go:norace
func (r *Rand) Intn(n int) int {
	if n <= 0 {
		return 0
	}
	return int(r.Uint64() % uint64(n))
}

//go:norace
func (r *Rand) Int63n(n int64) int64 {
	if n <= 0 {
		return 0
	}
	return int64(r.Uint64() % uint64(n))
}

//go:norace
func (r *Rand) Float64() float64 { return float64(r.Uint64()>>11) / (1 << 53) }

// Chance returns true with probability p.
//
//go:norace
func (r *Rand) Chance(p float64) bool { return r.Float64() < p }

// Range returns an int in [lo, hi].
//
//go:norace
func (r *Rand) Range(lo, hi int) int {
	if hi <= lo {
		return lo
	}
	return lo + r.Intn(hi-lo+1)
}

// Pick returns an index drawn with the given non-negative weights.
//
//go:norace
func (r *Rand) Pick(weights []int) int {
	tot := 0
	for _, w := range weights {
		tot += w
	}
	if tot <= 0 {
		return 0
	}
	x := r.Intn(tot)
	for i, w := range weights {
		if x < w {
			return i
		}
		x -= w
	}
	return len(weights) - 1
}

// Perm returns a permutation of 0..n-1.
//
//go:norace
func (r *Rand) Perm(n int) []int {
	p := make([]int, n)
	for i := range p {
		p[i] = i
	}
	for i := n - 1; i > 0; i-- {
		j := r.Intn(i + 1)
		p[i], p[j] = p[j], p[i]
	}
	return p
}
