//go:build race

package vrt

import (
	"runtime"
	"unsafe"
)

// RaceBuild reports whether the binary was built with the race detector.
const RaceBuild = true

func RaceDisable()            { runtime.RaceDisable() }
func RaceEnable()             { runtime.RaceEnable() }
func RaceAcquire(p *int)      { runtime.RaceAcquire(unsafe.Pointer(p)) }
func RaceRelease(p *int)      { runtime.RaceRelease(unsafe.Pointer(p)) }
func RaceReleaseMerge(p *int) { runtime.RaceReleaseMerge(unsafe.Pointer(p)) }
