// simbin is the simulator binary, built per check from the rewritten scratch copy of the engine.
//
//	simbin worker <prop> <tier> <baseSeed>     read "run <idx>" lines on stdin, print one JSON result per line
//	simbin exec <casefile>                     execute one recorded case, print its JSON result
//	simbin gen <prop> <tier> <baseSeed> <idx>  execute run idx and print the executed case
package main

import (
	"bufio"
	"encoding/json"
	"fmt"
	"os"
	"runtime/debug"
	"runtime/metrics"
	"runtime/pprof"
	"strconv"
	"strings"
	"time"

	"github.com/XiXi-2024/xixi-kv/vsim/h"
)

func main() {
	if len(os.Args) < 2 {
		fmt.Fprintln(os.Stderr, "usage: simbin worker|exec|gen ...")
		os.Exit(2)
	}
	go memoryGuard()
	if pf := os.Getenv("VSIM_PPROF"); pf != "" {
		f, _ := os.Create(pf)
		pprof.StartCPUProfile(f)
		defer pprof.StopCPUProfile()
	}
	switch os.Args[1] {
	case "worker":
		prop, tier := os.Args[2], os.Args[3]
		base, _ := strconv.ParseUint(os.Args[4], 10, 64)
		in := bufio.NewScanner(os.Stdin)
		out := bufio.NewWriter(os.Stdout)
		for in.Scan() {
			ln := strings.Fields(in.Text())
			if len(ln) != 2 || ln[0] != "run" {
				continue
			}
			idx, _ := strconv.Atoi(ln[1])
			fmt.Fprintf(out, "START %d\n", idx)
			out.Flush()
			res := runIdx(prop, tier, base, idx)
			if res.Outcome == "ok" && idx%97 != 0 {
				res.Case = nil
			}
			b, _ := json.Marshal(res)
			out.Write(b)
			out.WriteByte('\n')
			out.Flush()
		}
	case "peer":
		h.PeerMain()
	case "meta":
		m := h.Metas[os.Args[2]]
		if m == nil {
			fmt.Fprintln(os.Stderr, "no meta for", os.Args[2])
			os.Exit(2)
		}
		b, _ := json.Marshal(m)
		fmt.Println(string(b))
	case "case":
		// reassemble the in-flight case a dead worker left behind: simbin case <inflight-file>
		c, err := h.ReadInflight(os.Args[2])
		if err != nil {
			fmt.Fprintln(os.Stderr, err)
			os.Exit(2)
		}
		b, _ := json.Marshal(c)
		fmt.Println(string(b))
	case "gen":
		prop, tier := os.Args[2], os.Args[3]
		base, _ := strconv.ParseUint(os.Args[4], 10, 64)
		idx, _ := strconv.Atoi(os.Args[5])
		res := runIdx(prop, tier, base, idx)
		b, _ := json.MarshalIndent(res, "", " ")
		fmt.Println(string(b))
	case "exec":
		data, err := os.ReadFile(os.Args[2])
		if err != nil {
			fmt.Fprintln(os.Stderr, err)
			os.Exit(2)
		}
		var rf struct {
			Case *h.Case `json:"case"`
		}
		if err := json.Unmarshal(data, &rf); err != nil || rf.Case == nil {
			var c h.Case
			if err2 := json.Unmarshal(data, &c); err2 != nil || c.Prop == "" {
				fmt.Fprintln(os.Stderr, "cannot parse case:", err, err2)
				os.Exit(2)
			}
			rf.Case = &c
		}
		res := h.Execute(rf.Case, nil, -1)
		if res.Outcome != "violation" {
			res.Case = nil
		}
		b, _ := json.Marshal(res)
		fmt.Println(string(b))
	default:
		fmt.Fprintln(os.Stderr, "unknown mode")
		os.Exit(2)
	}
}

func runIdx(prop, tier string, base uint64, idx int) *h.Result {
	seed := h.RunSeed(base, prop, idx)
	h.GenIdx = idx
	c, gen := h.GenCase(prop, seed, tier)
	if c == nil {
		return &h.Result{Idx: idx, Seed: seed, Outcome: "infra", Note: "no generator for " + prop}
	}
	res := h.Execute(c, gen, idx)
	if res.Case == nil {
		res.Case = c
	}
	return res
}

// memoryGuard ends the process when the live heap explodes (an engine loop that appends for ever, e.g. a writer
// whose chunk size became zero): the sandbox has no memory limit of its own, and RLIMIT_AS is unusable with the
// race detector and with 512 MiB mappings. The driver sees the death, recovers the case from the in-flight log
// and reports it like any other fatal error of the run in progress. The guard is an ordinary goroutine outside the
// simulator: it reads a runtime metric and touches nothing the simulation can observe.
func memoryGuard() {
	limit := uint64(3) << 30
	if v, err := strconv.Atoi(os.Getenv("VSIM_MEMLIMIT_MB")); err == nil && v > 0 {
		limit = uint64(v) << 20
	}
	// A legitimate heavy run (thorough crash arms clone whole directory trees per image) may let the heap balloon
	// with garbage: the soft limit makes the collector work harder before that happens, and the guard looks at
	// what is LIVE after the last collection; only far above that does the total count on its own.
	debug.SetMemoryLimit(int64(limit) * 3 / 4)
	sample := []metrics.Sample{{Name: "/gc/heap/live:bytes"}, {Name: "/memory/classes/total:bytes"}, {Name: "/memory/classes/heap/released:bytes"}}
	for {
		time.Sleep(100 * time.Millisecond)
		metrics.Read(sample)
		if sample[0].Value.Kind() != metrics.KindUint64 || sample[1].Value.Kind() != metrics.KindUint64 {
			continue
		}
		live := sample[0].Value.Uint64()
		total := sample[1].Value.Uint64() - sample[2].Value.Uint64()
		if live > limit || total > 4*limit {
			fmt.Fprintf(os.Stderr, "fatal error: runaway allocation: memory above the simulator's limit of %d MiB live\n(measured: live heap %d MiB, process %d MiB)\n", limit>>20, live>>20, total>>20)
			os.Exit(67)
		}
	}
}
