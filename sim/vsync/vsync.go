// Package vsync provides cooperative re-implementations of sync.Mutex and sync.RWMutex for the simulator.
// State is plain data manipulated by the single running task; blocking is a scheduler predicate, so deadlock is
// decided exactly. The race-detector annotations are exactly those of the real types, so the detector sees the
// happens-before edges the engine's own locking creates and nothing else.
package vsync

import (
	"unsafe"

	"github.com/XiXi-2024/xixi-kv/vsim/vrt"
)

var serial uint32

// ResetSerial restarts lock numbering (per run, so lock ids in traces are a function of the run only).
//
//go:norace
func ResetSerial() { serial = 0 }

//go:norace
func nextSerial() uint32 { serial++; return serial }

// Mutex is a cooperative sync.Mutex.
type Mutex struct {
	locked bool
	id     uint32
	sem    int
}

type mutexCond struct{ m *Mutex }

//go:norace
func (c mutexCond) Ready() bool  { return !c.m.locked }
func (c mutexCond) Name() string { return "Mutex.Lock" }

//go:norace
func (m *Mutex) ident() uint32 {
	if m.id == 0 {
		m.id = nextSerial()
	}
	return m.id
}

//go:norace
func (m *Mutex) Lock() {
	vrt.Point(vrt.PLock, m.ident())
	vrt.Block(mutexCond{m})
	m.locked = true
	vrt.RaceAcquire(&m.sem)
}

//go:norace
func (m *Mutex) TryLock() bool {
	vrt.Point(vrt.PLock, m.ident())
	if m.locked {
		return false
	}
	m.locked = true
	vrt.RaceAcquire(&m.sem)
	return true
}

//go:norace
func (m *Mutex) Unlock() {
	if !m.locked {
		vrt.FatalError("sync: unlock of unlocked mutex")
		return
	}
	vrt.RaceRelease(&m.sem)
	m.locked = false
	vrt.Point(vrt.PUnlock, m.ident())
}

// RWMutex is a cooperative sync.RWMutex with the real type's writer preference: once a writer has announced
// itself, new readers wait, which is what makes a recursive read lock deadlock behind a waiting writer.
type RWMutex struct {
	wHeld     bool // a writer holds, or has announced and is draining readers
	readers   int
	id        uint32
	readerSem int
	writerSem int
}

type rwAnnounceCond struct{ m *RWMutex }

//go:norace
func (c rwAnnounceCond) Ready() bool  { return !c.m.wHeld }
func (c rwAnnounceCond) Name() string { return "RWMutex.Lock(wait writer)" }

type rwDrainCond struct{ m *RWMutex }

//go:norace
func (c rwDrainCond) Ready() bool  { return c.m.readers == 0 }
func (c rwDrainCond) Name() string { return "RWMutex.Lock(wait readers)" }

type rwReadCond struct{ m *RWMutex }

//go:norace
func (c rwReadCond) Ready() bool  { return !c.m.wHeld }
func (c rwReadCond) Name() string { return "RWMutex.RLock" }

//go:norace
func (m *RWMutex) ident() uint32 {
	if m.id == 0 {
		m.id = nextSerial()
	}
	return m.id
}

//go:norace
func (m *RWMutex) Lock() {
	vrt.Point(vrt.PLock, m.ident())
	vrt.Block(rwAnnounceCond{m})
	m.wHeld = true
	vrt.Block(rwDrainCond{m})
	vrt.RaceAcquire(&m.readerSem)
	vrt.RaceAcquire(&m.writerSem)
}

//go:norace
func (m *RWMutex) TryLock() bool {
	vrt.Point(vrt.PLock, m.ident())
	if m.wHeld || m.readers > 0 {
		return false
	}
	m.wHeld = true
	vrt.RaceAcquire(&m.readerSem)
	vrt.RaceAcquire(&m.writerSem)
	return true
}

//go:norace
func (m *RWMutex) Unlock() {
	if !m.wHeld {
		vrt.FatalError("sync: Unlock of unlocked RWMutex")
		return
	}
	vrt.RaceRelease(&m.readerSem)
	m.wHeld = false
	vrt.Point(vrt.PUnlock, m.ident())
}

//go:norace
func (m *RWMutex) RLock() {
	vrt.Point(vrt.PRLock, m.ident())
	vrt.Block(rwReadCond{m})
	m.readers++
	vrt.RaceAcquire(&m.readerSem)
}

//go:norace
func (m *RWMutex) TryRLock() bool {
	vrt.Point(vrt.PRLock, m.ident())
	if m.wHeld {
		return false
	}
	m.readers++
	vrt.RaceAcquire(&m.readerSem)
	return true
}

//go:norace
func (m *RWMutex) RUnlock() {
	if m.readers <= 0 {
		vrt.FatalError("sync: RUnlock of unlocked RWMutex")
		return
	}
	vrt.RaceReleaseMerge(&m.writerSem)
	m.readers--
	vrt.Point(vrt.PRUnlock, m.ident())
}

// RLocker mirrors sync.RWMutex.RLocker.
func (m *RWMutex) RLocker() Locker { return (*rlocker)(m) }

type rlocker RWMutex

func (r *rlocker) Lock()   { (*RWMutex)(r).RLock() }
func (r *rlocker) Unlock() { (*RWMutex)(r).RUnlock() }

// Locker mirrors sync.Locker.
type Locker interface {
	Lock()
	Unlock()
}

// Pool is a deterministic replacement for sync.Pool: a LIFO free list. The real pool's reuse depends on the
// garbage collector and on which P a goroutine runs, which would make buffer reuse (and therefore the symptoms
// of aliasing defects, and what a "fresh process" sees after a simulated crash) irreproducible. The race
// annotations are those of the real type.
type Pool struct {
	New        func() any
	items      []any
	registered bool
}

var pools []*Pool

var poolRaceHash [128]int

// poolRaceAddr mirrors sync.poolRaceAddr: the synchronisation object is chosen by the pooled object's address.
func poolRaceAddr(x any) *int {
	ptr := uintptr((*[2]unsafe.Pointer)(unsafe.Pointer(&x))[1])
	h := uint32((uint64(uint32(ptr)) * 0x85ebca6b) >> 16)
	return &poolRaceHash[h%uint32(len(poolRaceHash))]
}

// ResetPools empties every pool (a simulated process restart: a fresh process has empty pools).
//
//go:norace
func ResetPools() {
	for _, p := range pools {
		p.items = nil
		p.registered = false
	}
	pools = nil
}

//go:norace
func (p *Pool) pop() (any, bool) {
	if n := len(p.items); n > 0 {
		x := p.items[n-1]
		p.items[n-1] = nil
		p.items = p.items[:n-1]
		return x, true
	}
	return nil, false
}

//go:norace
func (p *Pool) push(x any) {
	if !p.registered {
		p.registered = true
		pools = append(pools, p)
	}
	if len(p.items) < 64 {
		p.items = append(p.items, x)
	}
}

func (p *Pool) Get() any {
	if x, ok := p.pop(); ok {
		vrt.RaceAcquire(poolRaceAddr(x))
		return x
	}
	if p.New != nil {
		return p.New()
	}
	return nil
}

func (p *Pool) Put(x any) {
	if x == nil {
		return
	}
	vrt.RaceReleaseMerge(poolRaceAddr(x))
	p.push(x)
}
