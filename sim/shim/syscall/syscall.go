// Package syscall shadows the standard syscall package in the rewritten engine: Statfs answers with the
// simulator's free-space parameter, the few other identifiers are the real ones.
package syscall

import (
	real "syscall"

	"github.com/XiXi-2024/xixi-kv/vsim/vos"
)

type (
	Statfs_t = real.Statfs_t
	Stat_t   = real.Stat_t
	Errno    = real.Errno
	Signal   = real.Signal
)

const (
	ENOENT = real.ENOENT
	EEXIST = real.EEXIST
	ENOSPC = real.ENOSPC
	EIO    = real.EIO
	EINTR  = real.EINTR
	EAGAIN = real.EAGAIN
	EINVAL = real.EINVAL

	SIGINT  = real.SIGINT
	SIGTERM = real.SIGTERM
	SIGKILL = real.SIGKILL

	O_RDONLY = real.O_RDONLY
	O_RDWR   = real.O_RDWR
	O_CREAT  = real.O_CREAT
	O_APPEND = real.O_APPEND
	O_SYNC   = real.O_SYNC
	O_DSYNC  = real.O_DSYNC
)

var (
	Statfs = vos.Statfs
	Getwd  = real.Getwd
	Getpid = real.Getpid
	Stat   = real.Stat
	Fsync  = real.Fsync
)
