// Package syscall shadows the standard syscall package in the rewritten engine: Statfs answers with the
// simulator's free-space parameter, the few other identifiers are the real ones.
package syscall

import (
	real "syscall"

	"github.com/XiXi-2024/xixi-kv/vsim/vos"
)

type (
	Statfs_t = real.Statfs_t
	Stat_t   = real.Stat_t
	Errno    = real.Errno
	Signal   = real.Signal
)

const (
	ENOTDIR   = real.ENOTDIR
	EACCES    = real.EACCES
	EPERM     = real.EPERM
	EBUSY     = real.EBUSY
	ENOTEMPTY = real.ENOTEMPTY
	EBADF     = real.EBADF

	LOCK_SH = real.LOCK_SH
	LOCK_EX = real.LOCK_EX
	LOCK_NB = real.LOCK_NB
	LOCK_UN = real.LOCK_UN

	PROT_READ  = real.PROT_READ
	PROT_WRITE = real.PROT_WRITE
	MAP_SHARED = real.MAP_SHARED

	ENOENT = real.ENOENT
	EEXIST = real.EEXIST
	ENOSPC = real.ENOSPC
	EIO    = real.EIO
	EINTR  = real.EINTR
	EAGAIN = real.EAGAIN
	EINVAL = real.EINVAL

	SIGINT  = real.SIGINT
	SIGTERM = real.SIGTERM
	SIGKILL = real.SIGKILL

	O_RDONLY = real.O_RDONLY
	O_RDWR   = real.O_RDWR
	O_CREAT  = real.O_CREAT
	O_APPEND = real.O_APPEND
	O_SYNC   = real.O_SYNC
	O_DSYNC  = real.O_DSYNC
)

var (
	Statfs = vos.Statfs
	Getwd  = real.Getwd
	Getpid = real.Getpid
	Stat   = real.Stat
	Fsync  = real.Fsync
	// pass-through (not simulated): present so that an edit using them still compiles; nothing in the engine does
	Flock     = real.Flock
	Fstat     = real.Fstat
	Ftruncate = real.Ftruncate
	Fdatasync = real.Fdatasync
	Mmap      = real.Mmap
	Munmap    = real.Munmap
	Getuid    = real.Getuid
)
