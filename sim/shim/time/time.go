// Package time shadows the standard time package in the rewritten engine: Now/Since/Until/Sleep read the
// simulated clock, everything else is the real thing.
package time

import (
	real "time"

	"github.com/XiXi-2024/xixi-kv/vsim/vclock"
)

type (
	Duration   = real.Duration
	Time       = real.Time
	Month      = real.Month
	Weekday    = real.Weekday
	Location   = real.Location
	Ticker     = real.Ticker
	Timer      = real.Timer
	ParseError = real.ParseError
)

const (
	Nanosecond  = real.Nanosecond
	Microsecond = real.Microsecond
	Millisecond = real.Millisecond
	Second      = real.Second
	Minute      = real.Minute
	Hour        = real.Hour

	Layout     = real.Layout
	ANSIC      = real.ANSIC
	UnixDate   = real.UnixDate
	RFC822     = real.RFC822
	RFC850     = real.RFC850
	RFC1123Z   = real.RFC1123Z
	Stamp      = real.Stamp
	StampMilli = real.StampMilli
	StampMicro = real.StampMicro
	StampNano  = real.StampNano

	January   = real.January
	February  = real.February
	March     = real.March
	April     = real.April
	May       = real.May
	June      = real.June
	July      = real.July
	August    = real.August
	September = real.September
	October   = real.October
	November  = real.November
	December  = real.December

	Sunday    = real.Sunday
	Monday    = real.Monday
	Tuesday   = real.Tuesday
	Wednesday = real.Wednesday
	Thursday  = real.Thursday
	Friday    = real.Friday
	Saturday  = real.Saturday

	RFC3339     = real.RFC3339
	RFC3339Nano = real.RFC3339Nano
	RFC1123     = real.RFC1123
	Kitchen     = real.Kitchen
	DateTime    = real.DateTime
	DateOnly    = real.DateOnly
	TimeOnly    = real.TimeOnly
)

var (
	UTC   = real.UTC
	Local = real.Local
)

var (
	Now   = vclock.Now
	Since = vclock.Since
	Until = vclock.Until
	Sleep = vclock.Sleep

	Unix            = real.Unix
	UnixMilli       = real.UnixMilli
	UnixMicro       = real.UnixMicro
	Date            = real.Date
	Parse           = real.Parse
	ParseDuration   = real.ParseDuration
	ParseInLocation = real.ParseInLocation
	FixedZone       = real.FixedZone
	LoadLocation    = real.LoadLocation
	// Tickers and timers stay real: the only user is the background-merge goroutine, which no check enables.
	NewTicker = real.NewTicker
	NewTimer  = real.NewTimer
	After     = real.After
	AfterFunc = real.AfterFunc
	Tick      = real.Tick
)
