// Package time shadows the standard time package in the rewritten engine: Now/Since/Until/Sleep read the
// simulated clock, everything else is the real thing.
package time

import (
	real "time"

	"github.com/XiXi-2024/xixi-kv/vsim/vclock"
)

type (
	Duration   = real.Duration
	Time       = real.Time
	Month      = real.Month
	Weekday    = real.Weekday
	Location   = real.Location
	Ticker     = real.Ticker
	Timer      = real.Timer
	ParseError = real.ParseError
)

const (
	Nanosecond  = real.Nanosecond
	Microsecond = real.Microsecond
	Millisecond = real.Millisecond
	Second      = real.Second
	Minute      = real.Minute
	Hour        = real.Hour

	RFC3339     = real.RFC3339
	RFC3339Nano = real.RFC3339Nano
	RFC1123     = real.RFC1123
	Kitchen     = real.Kitchen
	DateTime    = real.DateTime
	DateOnly    = real.DateOnly
	TimeOnly    = real.TimeOnly
)

var (
	UTC   = real.UTC
	Local = real.Local
)

var (
	Now   = vclock.Now
	Since = vclock.Since
	Until = vclock.Until
	Sleep = vclock.Sleep

	Unix          = real.Unix
	UnixMilli     = real.UnixMilli
	UnixMicro     = real.UnixMicro
	Date          = real.Date
	Parse         = real.Parse
	ParseDuration = real.ParseDuration
	// Tickers and timers stay real: the only user is the background-merge goroutine, which no check enables.
	NewTicker = real.NewTicker
	NewTimer  = real.NewTimer
	After     = real.After
	AfterFunc = real.AfterFunc
	Tick      = real.Tick
)
