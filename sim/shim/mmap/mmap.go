// Package mmap shadows github.com/edsrzf/mmap-go in the rewritten engine (see package vos).
package mmap

import "github.com/XiXi-2024/xixi-kv/vsim/vos"

type MMap = vos.MMap

const (
	RDONLY = vos.RDONLY
	RDWR   = vos.RDWR
	COPY   = vos.COPY
	EXEC   = vos.EXEC
	ANON   = vos.ANON
)

var (
	Map       = vos.Map
	MapRegion = vos.MapRegion
)
