// Package sync shadows the standard sync package in the rewritten engine: Mutex and RWMutex are the
// simulator's cooperative versions, everything else is the real thing.
package sync

import (
	real "sync"

	"github.com/XiXi-2024/xixi-kv/vsim/vsync"
)

type (
	Mutex     = vsync.Mutex
	RWMutex   = vsync.RWMutex
	Locker    = vsync.Locker
	Pool      = vsync.Pool
	Once      = real.Once
	Map       = real.Map
	WaitGroup = real.WaitGroup
	Cond      = real.Cond
)

var NewCond = real.NewCond

func OnceFunc(f func()) func() { return real.OnceFunc(f) }

func OnceValue[T any](f func() T) func() T { return real.OnceValue(f) }

func OnceValues[T1, T2 any](f func() (T1, T2)) func() (T1, T2) { return real.OnceValues(f) }
