// Package os shadows the standard os package in the rewritten engine (see package vos).
package os

import "github.com/XiXi-2024/xixi-kv/vsim/vos"

type (
	File      = vos.File
	FileInfo  = vos.FileInfo
	FileMode  = vos.FileMode
	DirEntry  = vos.DirEntry
	PathError = vos.PathError

	Signal       = vos.Signal
	LinkError    = vos.LinkError
	SyscallError = vos.SyscallError
)

const (
	O_RDONLY = vos.O_RDONLY
	O_WRONLY = vos.O_WRONLY
	O_RDWR   = vos.O_RDWR
	O_APPEND = vos.O_APPEND
	O_CREATE = vos.O_CREATE
	O_EXCL   = vos.O_EXCL
	O_SYNC   = vos.O_SYNC
	O_TRUNC  = vos.O_TRUNC

	ModePerm = vos.ModePerm
	ModeDir  = vos.ModeDir

	PathSeparator = vos.PathSeparator

	SEEK_SET = vos.SEEK_SET
	SEEK_CUR = vos.SEEK_CUR
	SEEK_END = vos.SEEK_END

	ModeAppend    = vos.ModeAppend
	ModeExclusive = vos.ModeExclusive
	ModeTemporary = vos.ModeTemporary
	ModeSymlink   = vos.ModeSymlink
	ModeType      = vos.ModeType
	DevNull       = vos.DevNull
)

var (
	ErrNotExist   = vos.ErrNotExist
	ErrExist      = vos.ErrExist
	ErrClosed     = vos.ErrClosed
	ErrPermission = vos.ErrPermission
	ErrInvalid    = vos.ErrInvalid

	Stdout = vos.Stdout
	Stderr = vos.Stderr
	Stdin  = vos.Stdin
	Args   = vos.Args
)

var (
	OpenFile  = vos.OpenFile
	Open      = vos.Open
	Create    = vos.Create
	MkdirAll  = vos.MkdirAll
	Mkdir     = vos.Mkdir
	Remove    = vos.Remove
	RemoveAll = vos.RemoveAll
	Rename    = vos.Rename
	Stat      = vos.Stat
	Lstat     = vos.Lstat
	ReadDir   = vos.ReadDir
	ReadFile  = vos.ReadFile
	WriteFile = vos.WriteFile
	Truncate  = vos.Truncate

	Chmod      = vos.Chmod
	Chtimes    = vos.Chtimes
	Readlink   = vos.Readlink
	Getuid     = vos.Getuid
	Geteuid    = vos.Geteuid
	Getgid     = vos.Getgid
	Getppid    = vos.Getppid
	CreateTemp = vos.CreateTemp
	DirFS      = vos.DirFS
	Unsetenv   = vos.Unsetenv
	NewFile    = vos.NewFile
	Interrupt  = vos.Interrupt
	Kill       = vos.Kill

	ErrDeadlineExceeded = vos.ErrDeadlineExceeded
	ErrNoDeadline       = vos.ErrNoDeadline

	IsNotExist      = vos.IsNotExist
	IsExist         = vos.IsExist
	IsPermission    = vos.IsPermission
	TempDir         = vos.TempDir
	Getwd           = vos.Getwd
	Getpagesize     = vos.Getpagesize
	Getenv          = vos.Getenv
	Getpid          = vos.Getpid
	Exit            = vos.Exit
	MkdirTemp       = vos.MkdirTemp
	UserHomeDir     = vos.UserHomeDir
	SameFile        = vos.SameFile
	Hostname        = vos.Hostname
	Environ         = vos.Environ
	LookupEnv       = vos.LookupEnv
	Setenv          = vos.Setenv
	ExpandEnv       = vos.ExpandEnv
	Executable      = vos.Executable
	IsPathSeparator = vos.IsPathSeparator
)
