// Package unix shadows golang.org/x/sys/unix for the scratch copy of gofrs/flock (see scripts/mkscratch.sh): the
// flock(2) call itself is real, but it is a scheduling point, so that the window between opening the lock file
// and locking it - inside the library the engine's Open relies on - is explored like any other.
package unix

import (
	real "golang.org/x/sys/unix"

	"github.com/XiXi-2024/xixi-kv/vsim/vrt"
)

const (
	LOCK_EX = real.LOCK_EX
	LOCK_SH = real.LOCK_SH
	LOCK_NB = real.LOCK_NB
	LOCK_UN = real.LOCK_UN

	EWOULDBLOCK = real.EWOULDBLOCK
	EIO         = real.EIO
	EBADF       = real.EBADF
	EAGAIN      = real.EAGAIN
	EINTR       = real.EINTR
)

// Flock is the real flock(2), preceded by a scheduling point.
//
//go:norace
func Flock(fd int, how int) error {
	vrt.Point(vrt.PIO, 104)
	return real.Flock(fd, how)
}
