// Package snowflake shadows github.com/bwmarrin/snowflake in the rewritten engine: ids come from the
// simulated clock.
package snowflake

import (
	"github.com/XiXi-2024/xixi-kv/vsim/vclock"
	real "github.com/bwmarrin/snowflake"
)

type ID = real.ID
type Node = vclock.Node

var NewNode = vclock.NewNode

var (
	Epoch    = real.Epoch
	NodeBits = real.NodeBits
	StepBits = real.StepBits
)

var (
	ParseString = real.ParseString
	ParseInt64  = real.ParseInt64
	ParseBase2  = real.ParseBase2
	ParseBase32 = real.ParseBase32
	ParseBase36 = real.ParseBase36
	ParseBase58 = real.ParseBase58
	ParseBase64 = real.ParseBase64
	ParseBytes  = real.ParseBytes
)
