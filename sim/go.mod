// Present only so that the parent module (/verif) does not try to compile these packages in place, and so
// that the engine-independent runtime packages can be vetted here. When a check builds the simulator this
// directory is copied (without this file) into the rewritten scratch copy of the engine as <scratch>/vsim,
// i.e. it becomes part of the engine's own module.
module github.com/XiXi-2024/xixi-kv/vsim

go 1.23.4

require (
	github.com/bwmarrin/snowflake v0.3.0
	github.com/edsrzf/mmap-go v1.2.0
)

require golang.org/x/sys v0.22.0 // indirect
