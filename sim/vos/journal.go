// Package vos is the simulated disk. Real bytes live in a private tmpfs directory, so the engine's real read
// paths, real mmap(2) and real flock(2) run; but every call the engine makes is a scheduling point, every
// mutating call is journalled, and the journal carries the durability model from which crash images are built.
package vos

import (
	"fmt"
	"hash/crc32"
	"path/filepath"
	"sort"
	"strings"
)

// Kind is a journal entry kind.
type Kind uint8

const (
	KMkdir Kind = iota
	KCreate
	KImport // a pre-existing file first seen by the simulator: content recorded, considered durable
	KWrite  // append / positioned write through a descriptor
	KMWrite // store through a memory mapping, as harvested
	KTruncate
	KSync  // fsync of a descriptor
	KMSync // msync of a mapping
	KClose
	KRename
	KRemove
	KRemoveAll
	KOpen // open of an existing file (no mutation; kept for trace completeness)
	KMap
	KUnmap
	KMark // harness marker (operation boundaries)
)

var kindNames = [...]string{"mkdir", "create", "import", "write", "mwrite", "truncate", "sync", "msync", "close",
	"rename", "remove", "removeall", "open", "map", "unmap", "mark"}

func (k Kind) String() string { return kindNames[k] }

// Mutating reports whether the entry changes the tree or its durability state.
func (k Kind) Mutating() bool {
	switch k {
	case KOpen, KMap, KUnmap, KMark, KClose:
		return false
	}
	return true
}

// Entry is one journalled file-system event.
type Entry struct {
	Kind  Kind
	Ino   int
	Path  string // relative to the FS root
	Path2 string // rename target
	Off   int64  // write offset / truncate size
	Data  []byte
	Op    int    // harness operation in flight
	Ev    uint64 // global event stamp
	Task  int
}

func (e *Entry) String() string {
	s := fmt.Sprintf("%s %s", e.Kind, e.Path)
	switch e.Kind {
	case KWrite, KMWrite, KImport:
		s += fmt.Sprintf(" off=%d len=%d crc=%08x", e.Off, len(e.Data), crc32.ChecksumIEEE(e.Data))
	case KTruncate:
		s += fmt.Sprintf(" size=%d", e.Off)
	case KRename:
		s += " -> " + e.Path2
	case KMark:
		s += fmt.Sprintf(" %d", e.Off)
	}
	return s + fmt.Sprintf(" op=%d", e.Op)
}

// MFile is the model of one file (inode).
type MFile struct {
	Ino      int
	Data     []byte // content up to the high-water mark of written bytes (never longer than Size)
	Size     int64  // physical size; bytes in [len(Data), Size) are zeros (sparse)
	Unsynced []int  // journal indices of data entries (write/mwrite) not yet covered by a sync
}

// Tree is the model of the directory tree under the FS root.
type Tree struct {
	Dirs   map[string]bool
	Names  map[string]int // relative path -> inode
	Inodes map[int]*MFile
}

func NewTree() *Tree {
	return &Tree{Dirs: map[string]bool{}, Names: map[string]int{}, Inodes: map[int]*MFile{}}
}

// Clone deep-copies the tree.
func (t *Tree) Clone() *Tree {
	c := NewTree()
	for d := range t.Dirs {
		c.Dirs[d] = true
	}
	for n, i := range t.Names {
		c.Names[n] = i
	}
	for i, f := range t.Inodes {
		nf := &MFile{Ino: f.Ino, Size: f.Size}
		nf.Data = append([]byte(nil), f.Data...)
		nf.Unsynced = append([]int(nil), f.Unsynced...)
		c.Inodes[i] = nf
	}
	return c
}

// SortedNames returns the file paths in order.
func (t *Tree) SortedNames() []string {
	names := make([]string, 0, len(t.Names))
	for n := range t.Names {
		names = append(names, n)
	}
	sort.Strings(names)
	return names
}

// File returns the model file at path, or nil.
func (t *Tree) File(path string) *MFile {
	ino, ok := t.Names[path]
	if !ok {
		return nil
	}
	return t.Inodes[ino]
}

// Content returns the full logical content (Data padded with zeros to Size) of a file; use only for small files.
func (f *MFile) Content() []byte {
	if int64(len(f.Data)) >= f.Size {
		return f.Data[:f.Size]
	}
	b := make([]byte, f.Size)
	copy(b, f.Data)
	return b
}

func (f *MFile) writeAt(off int64, data []byte) {
	end := off + int64(len(data))
	if end > int64(len(f.Data)) {
		if end > int64(cap(f.Data)) {
			nd := make([]byte, end, end+end/2+64)
			copy(nd, f.Data)
			f.Data = nd
		} else {
			old := len(f.Data)
			f.Data = f.Data[:end]
			for i := int64(old); i < off; i++ {
				f.Data[i] = 0
			}
		}
	}
	copy(f.Data[off:end], data)
	if end > f.Size {
		f.Size = end
	}
}

func (f *MFile) truncate(size int64) {
	if size < int64(len(f.Data)) {
		f.Data = f.Data[:size]
	}
	f.Size = size
}

// Apply applies journal entry e (index idx) to the tree. keep limits how many bytes of a data entry are applied
// (-1 = all); it is how a power-loss image drops or tears an unsynced write.
func (t *Tree) Apply(idx int, e *Entry, keep int) {
	switch e.Kind {
	case KMkdir:
		p := e.Path
		for p != "." && p != "" && p != "/" {
			t.Dirs[p] = true
			p = filepath.Dir(p)
		}
	case KCreate:
		t.Inodes[e.Ino] = &MFile{Ino: e.Ino}
		t.Names[e.Path] = e.Ino
	case KImport:
		f := &MFile{Ino: e.Ino, Size: e.Off}
		f.Data = append([]byte(nil), e.Data...)
		t.Inodes[e.Ino] = f
		t.Names[e.Path] = e.Ino
	case KWrite, KMWrite:
		f := t.Inodes[e.Ino]
		if f == nil {
			return
		}
		data := e.Data
		if keep >= 0 && keep < len(data) {
			data = data[:keep]
		}
		if len(data) > 0 {
			if e.Kind == KMWrite && e.Off+int64(len(data)) > f.Size {
				// a store beyond the current end of file cannot reach the file
				if e.Off >= f.Size {
					data = nil
				} else {
					data = data[:f.Size-e.Off]
				}
			}
			f.writeAt(e.Off, data)
		}
		f.Unsynced = append(f.Unsynced, idx)
	case KTruncate:
		if f := t.Inodes[e.Ino]; f != nil {
			f.truncate(e.Off)
		}
	case KSync, KMSync:
		if f := t.Inodes[e.Ino]; f != nil {
			f.Unsynced = f.Unsynced[:0]
		}
	case KRename:
		ino, ok := t.Names[e.Path]
		if !ok {
			return
		}
		if old, ok := t.Names[e.Path2]; ok && old != ino {
			t.dropIfUnlinked(old, e.Path2)
		}
		delete(t.Names, e.Path)
		t.Names[e.Path2] = ino
	case KRemove:
		if ino, ok := t.Names[e.Path]; ok {
			delete(t.Names, e.Path)
			t.dropIfUnlinked(ino, e.Path)
		} else {
			delete(t.Dirs, e.Path)
		}
	case KRemoveAll:
		pre := e.Path + "/"
		for n, ino := range t.Names {
			if n == e.Path || strings.HasPrefix(n, pre) {
				delete(t.Names, n)
				t.dropIfUnlinked(ino, n)
			}
		}
		for d := range t.Dirs {
			if d == e.Path || strings.HasPrefix(d, pre) {
				delete(t.Dirs, d)
			}
		}
	}
}

func (t *Tree) dropIfUnlinked(ino int, _ string) {
	for _, i := range t.Names {
		if i == ino {
			return
		}
	}
	delete(t.Inodes, ino)
}

// Replay builds the tree after entries [0,k) on top of base (nil = empty). cut maps journal index -> bytes to
// keep of that data entry (entries absent from cut are applied whole).
func Replay(base *Tree, journal []Entry, k int, cut map[int]int) *Tree {
	var t *Tree
	if base != nil {
		t = base.Clone()
	} else {
		t = NewTree()
	}
	for i := 0; i < k && i < len(journal); i++ {
		keep := -1
		if cut != nil {
			if c, ok := cut[i]; ok {
				keep = c
			}
		}
		t.Apply(i, &journal[i], keep)
	}
	return t
}

// Hash is a content hash of the tree (names, sizes, bytes), for state-coverage measures and equality checks.
func (t *Tree) Hash() uint64 {
	h := uint64(14695981039346656037)
	mix := func(b []byte) {
		for _, c := range b {
			h ^= uint64(c)
			h *= 1099511628211
		}
	}
	for _, n := range t.SortedNames() {
		f := t.Inodes[t.Names[n]]
		mix([]byte(n))
		mix([]byte(fmt.Sprintf("|%d|", f.Size)))
		mix(f.Data)
	}
	return h
}
