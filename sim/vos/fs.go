package vos

import (
	"errors"
	"fmt"
	"io"
	"io/fs"
	"os"
	"path/filepath"
	"strings"
	"syscall"

	"github.com/XiXi-2024/xixi-kv/vsim/vrt"
)

// FS is the simulated disk of one run (or of one recovery of a crash image).
type FS struct {
	Root      string // absolute directory on tmpfs holding the real bytes
	Base      *Tree  // tree that existed before the first journal entry (crash image being recovered), or nil
	Journal   []Entry
	Live      *Tree // Base + Journal, maintained incrementally
	JournalOn bool  // false: calls are scheduling points and counted, but nothing is recorded (race arm)
	CurOp     int
	nextIno   int
	open      []*File // slice, not a map: map operations are race-instrumented inside the runtime even from norace code
	maps      []*mapping
	Calls     [16]uint64 // per Kind
	Reads     uint64
	// FaultFn, when set, is consulted before a call executes; a non-nil error is returned to the engine instead
	// of performing the call. Counted in FaultsFired.
	FaultFn     func(k Kind, rel string) error
	FaultsFired map[string]int
	FreeSpace   int64 // bytes reported by Statfs; <0 = ask the real file system
}

// Cur is the simulated disk in force, nil when the process is not simulating (calls pass straight through).
var Cur *FS

// NewFS creates a simulated disk rooted at root. base, if non-nil, describes the files already present.
func NewFS(root string, base *Tree) *FS {
	f := &FS{Root: filepath.Clean(root), Base: base, JournalOn: true, FreeSpace: -1,
		FaultsFired: map[string]int{}}
	if base != nil {
		f.Live = base.Clone()
		for ino := range base.Inodes {
			if ino >= f.nextIno {
				f.nextIno = ino + 1
			}
		}
	} else {
		f.Live = NewTree()
	}
	return f
}

// rel maps an absolute or relative OS path to a path relative to the root; ok=false if outside.
//
//go:norace
func (s *FS) rel(name string) (string, bool) {
	p := name
	if !filepath.IsAbs(p) {
		if wd, err := os.Getwd(); err == nil {
			p = filepath.Join(wd, p)
		}
	}
	p = filepath.Clean(p)
	if p == s.Root {
		return ".", true
	}
	if strings.HasPrefix(p, s.Root+"/") {
		return p[len(s.Root)+1:], true
	}
	return "", false
}

//go:norace
func (s *FS) add(e Entry) int {
	s.Calls[e.Kind]++
	if !s.JournalOn {
		return -1
	}
	e.Op = s.CurOp
	e.Ev = vrt.Stamp()
	e.Task = vrt.CurTask()
	s.Journal = append(s.Journal, e)
	idx := len(s.Journal) - 1
	s.Live.Apply(idx, &s.Journal[idx], -1)
	return idx
}

// Mark appends a harness marker (not a crash position of interest by itself, but it pins operation boundaries).
//
//go:norace
func (s *FS) Mark(code int64) {
	if s.JournalOn {
		s.harvest()
		s.add(Entry{Kind: KMark, Off: code})
	}
}

//go:norace
func (s *FS) fault(k Kind, rel string) error {
	if s.FaultFn == nil {
		return nil
	}
	if err := s.FaultFn(k, rel); err != nil {
		s.FaultsFired[k.String()]++
		return err
	}
	return nil
}

// inoOf returns the inode of a path, importing a pre-existing file the simulator has not seen yet.
//
//go:norace
func (s *FS) inoOf(rel string, abs string) (int, bool) {
	if !s.JournalOn {
		return 0, false
	}
	if ino, ok := s.Live.Names[rel]; ok {
		return ino, true
	}
	if !s.JournalOn {
		return 0, false
	}
	st, err := os.Stat(abs)
	if err != nil || st.IsDir() {
		return 0, false
	}
	data, err := os.ReadFile(abs)
	if err != nil {
		return 0, false
	}
	// trim a sparse zero tail so huge pre-extended files stay cheap
	n := len(data)
	for n > 0 && data[n-1] == 0 {
		n--
	}
	ino := s.nextIno
	s.nextIno++
	s.add(Entry{Kind: KImport, Ino: ino, Path: rel, Off: st.Size(), Data: data[:n:n]})
	return ino, true
}

// File shadows os.File.
type File struct {
	f      *os.File
	fs     *FS
	ino    int
	rel    string
	name   string
	append bool
	pos    int64
	closed bool
}

type FileInfo = os.FileInfo
type FileMode = os.FileMode
type DirEntry = os.DirEntry
type PathError = os.PathError

// OpenFile shadows os.OpenFile.
//
//go:norace
func OpenFile(name string, flag int, perm FileMode) (*File, error) {
	s := Cur
	if s == nil {
		f, err := os.OpenFile(name, flag, perm)
		if err != nil {
			return nil, err
		}
		return &File{f: f, name: name, append: flag&os.O_APPEND != 0}, nil
	}
	rel, inside := s.rel(name)
	if !inside {
		f, err := os.OpenFile(name, flag, perm)
		if err != nil {
			return nil, err
		}
		return &File{f: f, name: name, append: flag&os.O_APPEND != 0}, nil
	}
	vrt.Point(vrt.PIO, uint32(KOpen))
	s.harvest()
	if err := s.fault(KOpen, rel); err != nil {
		return nil, &os.PathError{Op: "open", Path: name, Err: err}
	}
	_, statErr := os.Lstat(name)
	existed := statErr == nil
	f, err := os.OpenFile(name, flag, perm)
	if err != nil {
		return nil, err
	}
	vf := &File{f: f, fs: s, rel: rel, name: name, append: flag&os.O_APPEND != 0}
	if existed {
		ino, _ := s.inoOf(rel, name)
		vf.ino = ino
		s.add(Entry{Kind: KOpen, Ino: ino, Path: rel})
		if flag&os.O_TRUNC != 0 {
			s.add(Entry{Kind: KTruncate, Ino: ino, Path: rel, Off: 0})
		}
	} else {
		vf.ino = s.nextIno
		s.nextIno++
		s.add(Entry{Kind: KCreate, Ino: vf.ino, Path: rel})
	}
	s.open = append(s.open, vf)
	return vf, nil
}

func Open(name string) (*File, error) { return OpenFile(name, os.O_RDONLY, 0) }
func Create(name string) (*File, error) {
	return OpenFile(name, os.O_RDWR|os.O_CREATE|os.O_TRUNC, 0666)
}

//go:norace
func (f *File) sim() *FS {
	if f.fs != nil && f.fs == Cur {
		return f.fs
	}
	return nil
}

//go:norace
func (f *File) Write(b []byte) (int, error) {
	s := f.sim()
	if s == nil {
		return f.f.Write(b)
	}
	vrt.Point(vrt.PIO, uint32(KWrite))
	s.harvest()
	if err := s.fault(KWrite, f.rel); err != nil {
		return 0, &os.PathError{Op: "write", Path: f.name, Err: err}
	}
	off := f.pos
	if f.append {
		if st, err := f.f.Stat(); err == nil {
			off = st.Size()
		}
	}
	n, err := f.f.Write(b)
	if n > 0 {
		s.add(Entry{Kind: KWrite, Ino: f.ino, Path: f.rel, Off: off, Data: append([]byte(nil), b[:n]...)})
		f.pos = off + int64(n)
	}
	return n, err
}

func (f *File) WriteString(str string) (int, error) { return f.Write([]byte(str)) }

//go:norace
func (f *File) WriteAt(b []byte, off int64) (int, error) {
	s := f.sim()
	if s == nil {
		return f.f.WriteAt(b, off)
	}
	vrt.Point(vrt.PIO, uint32(KWrite))
	s.harvest()
	if err := s.fault(KWrite, f.rel); err != nil {
		return 0, &os.PathError{Op: "write", Path: f.name, Err: err}
	}
	n, err := f.f.WriteAt(b, off)
	if n > 0 {
		s.add(Entry{Kind: KWrite, Ino: f.ino, Path: f.rel, Off: off, Data: append([]byte(nil), b[:n]...)})
	}
	return n, err
}

//go:norace
func (f *File) ReadAt(b []byte, off int64) (int, error) {
	if s := f.sim(); s != nil {
		vrt.Point(vrt.PIO, 100)
		s.Reads++
	}
	return f.f.ReadAt(b, off)
}

//go:norace
func (f *File) Read(b []byte) (int, error) {
	if s := f.sim(); s != nil {
		vrt.Point(vrt.PIO, 100)
		s.Reads++
	}
	n, err := f.f.Read(b)
	f.pos += int64(n)
	return n, err
}

//go:norace
func (f *File) Seek(offset int64, whence int) (int64, error) {
	p, err := f.f.Seek(offset, whence)
	if err == nil {
		f.pos = p
	}
	return p, err
}

//go:norace
func (f *File) Sync() error {
	s := f.sim()
	if s == nil {
		return f.f.Sync()
	}
	vrt.Point(vrt.PIO, uint32(KSync))
	s.harvest()
	if err := s.fault(KSync, f.rel); err != nil {
		return &os.PathError{Op: "sync", Path: f.name, Err: err}
	}
	if err := f.f.Sync(); err != nil {
		return err
	}
	s.add(Entry{Kind: KSync, Ino: f.ino, Path: f.rel})
	return nil
}

//go:norace
func (f *File) Close() error {
	s := f.sim()
	if s == nil {
		return f.f.Close()
	}
	vrt.Point(vrt.PIO, uint32(KClose))
	s.harvest()
	err := f.f.Close()
	if err == nil {
		s.add(Entry{Kind: KClose, Ino: f.ino, Path: f.rel})
		f.closed = true
	}
	return err
}

//go:norace
func (f *File) Truncate(size int64) error {
	s := f.sim()
	if s == nil {
		return f.f.Truncate(size)
	}
	vrt.Point(vrt.PIO, uint32(KTruncate))
	s.harvest()
	if err := s.fault(KTruncate, f.rel); err != nil {
		return &os.PathError{Op: "truncate", Path: f.name, Err: err}
	}
	if err := f.f.Truncate(size); err != nil {
		return err
	}
	s.add(Entry{Kind: KTruncate, Ino: f.ino, Path: f.rel, Off: size})
	return nil
}

//go:norace
func (f *File) Stat() (FileInfo, error) {
	if s := f.sim(); s != nil {
		vrt.Point(vrt.PIO, 101)
	}
	return f.f.Stat()
}

func (f *File) Name() string                                   { return f.f.Name() }
func (f *File) Fd() uintptr                                    { return f.f.Fd() }
func (f *File) Real() *os.File                                 { return f.f }
func (f *File) Readdir(n int) ([]FileInfo, error)              { return f.f.Readdir(n) }
func (f *File) ReadDir(n int) ([]DirEntry, error)              { return f.f.ReadDir(n) }
func (f *File) Readdirnames(n int) (names []string, err error) { return f.f.Readdirnames(n) }
func (f *File) Chmod(mode FileMode) error                      { return f.f.Chmod(mode) }

var _ io.ReaderAt = (*File)(nil)

// ---- directory-level calls ----

//go:norace
func MkdirAll(path string, perm FileMode) error {
	s := Cur
	rel, inside := "", false
	if s != nil {
		rel, inside = s.rel(path)
	}
	if !inside {
		return os.MkdirAll(path, perm)
	}
	vrt.Point(vrt.PIO, uint32(KMkdir))
	s.harvest()
	if err := s.fault(KMkdir, rel); err != nil {
		return &os.PathError{Op: "mkdir", Path: path, Err: err}
	}
	_, statErr := os.Stat(path)
	if err := os.MkdirAll(path, perm); err != nil {
		return err
	}
	if !s.JournalOn {
		s.Calls[KMkdir]++
	} else if (statErr != nil || !s.Live.Dirs[rel]) && rel != "." {
		if statErr == nil {
			// the directory exists but the simulator had not seen it (created by the peer process): no mutation
			s.Live.Dirs[rel] = true
		} else {
			s.add(Entry{Kind: KMkdir, Path: rel})
		}
	}
	return nil
}

func Mkdir(path string, perm FileMode) error {
	s := Cur
	rel, inside := "", false
	if s != nil {
		rel, inside = s.rel(path)
	}
	if !inside {
		return os.Mkdir(path, perm)
	}
	vrt.Point(vrt.PIO, uint32(KMkdir))
	s.harvest()
	if err := os.Mkdir(path, perm); err != nil {
		return err
	}
	s.add(Entry{Kind: KMkdir, Path: rel})
	return nil
}

//go:norace
func Remove(path string) error {
	s := Cur
	rel, inside := "", false
	if s != nil {
		rel, inside = s.rel(path)
	}
	if !inside {
		return os.Remove(path)
	}
	vrt.Point(vrt.PIO, uint32(KRemove))
	s.harvest()
	if err := s.fault(KRemove, rel); err != nil {
		return &os.PathError{Op: "remove", Path: path, Err: err}
	}
	s.inoOf(rel, path)
	if err := os.Remove(path); err != nil {
		return err
	}
	s.add(Entry{Kind: KRemove, Path: rel})
	return nil
}

//go:norace
func RemoveAll(path string) error {
	s := Cur
	rel, inside := "", false
	if s != nil {
		rel, inside = s.rel(path)
	}
	if !inside {
		return os.RemoveAll(path)
	}
	vrt.Point(vrt.PIO, uint32(KRemoveAll))
	s.harvest()
	if err := s.fault(KRemoveAll, rel); err != nil {
		return &os.PathError{Op: "removeall", Path: path, Err: err}
	}
	if err := os.RemoveAll(path); err != nil {
		return err
	}
	s.add(Entry{Kind: KRemoveAll, Path: rel})
	return nil
}

//go:norace
func Rename(oldpath, newpath string) error {
	s := Cur
	var r1, r2 string
	in1, in2 := false, false
	if s != nil {
		r1, in1 = s.rel(oldpath)
		r2, in2 = s.rel(newpath)
	}
	if !in1 || !in2 {
		return os.Rename(oldpath, newpath)
	}
	vrt.Point(vrt.PIO, uint32(KRename))
	s.harvest()
	if err := s.fault(KRename, r1); err != nil {
		return &os.LinkError{Op: "rename", Old: oldpath, New: newpath, Err: err}
	}
	s.inoOf(r1, oldpath)
	if err := os.Rename(oldpath, newpath); err != nil {
		return err
	}
	s.add(Entry{Kind: KRename, Path: r1, Path2: r2})
	return nil
}

//go:norace
func Stat(name string) (FileInfo, error) {
	if s := Cur; s != nil {
		if _, inside := s.rel(name); inside {
			vrt.Point(vrt.PIO, 101)
		}
	}
	return os.Stat(name)
}

func Lstat(name string) (FileInfo, error) { return Stat(name) }

//go:norace
func ReadDir(name string) ([]DirEntry, error) {
	if s := Cur; s != nil {
		if _, inside := s.rel(name); inside {
			vrt.Point(vrt.PIO, 102)
		}
	}
	return os.ReadDir(name)
}

//go:norace
func ReadFile(name string) ([]byte, error) {
	if s := Cur; s != nil {
		if rel, inside := s.rel(name); inside {
			vrt.Point(vrt.PIO, 100)
			s.harvest()
			if err := s.fault(KOpen, rel); err != nil {
				return nil, &os.PathError{Op: "open", Path: name, Err: err}
			}
			s.Reads++
		}
	}
	return os.ReadFile(name)
}

//go:norace
func WriteFile(name string, data []byte, perm FileMode) error {
	f, err := OpenFile(name, os.O_WRONLY|os.O_CREATE|os.O_TRUNC, perm)
	if err != nil {
		return err
	}
	_, err = f.Write(data)
	if err1 := f.Close(); err1 != nil && err == nil {
		err = err1
	}
	return err
}

// Statfs shadows syscall.Statfs: free space is a simulator parameter.
//
//go:norace
func Statfs(path string, st *syscall.Statfs_t) error {
	s := Cur
	if s == nil || s.FreeSpace < 0 {
		return syscall.Statfs(path, st)
	}
	vrt.Point(vrt.PIO, 103)
	*st = syscall.Statfs_t{}
	st.Bsize = 4096
	st.Bavail = uint64(s.FreeSpace / 4096)
	st.Bfree = st.Bavail
	st.Blocks = st.Bavail * 2
	return nil
}

// CloseAll force-closes whatever the engine left open (end of a run, or after an abandoned run).
func (s *FS) CloseAll() {
	for _, m := range s.maps {
		if m.live {
			_ = m.real.Unmap()
			m.live = false
			if m.fd != nil {
				_ = m.fd.Close()
			}
		}
	}
	s.maps = nil
	for _, f := range s.open {
		if !f.closed {
			_ = f.f.Close()
			f.closed = true
		}
	}
	s.open = nil
}

// OpenCount returns the number of descriptors and mappings the engine currently holds.
func (s *FS) OpenCount() (files, mappings int) {
	for _, m := range s.maps {
		if m.live {
			mappings++
		}
	}
	for _, f := range s.open {
		if !f.closed {
			files++
		}
	}
	return files, mappings
}

// Materialize writes tree t into directory dir (which must not exist or be empty).
func Materialize(t *Tree, dir string) error {
	if err := os.MkdirAll(dir, 0o755); err != nil {
		return err
	}
	for d := range t.Dirs {
		if err := os.MkdirAll(filepath.Join(dir, d), 0o755); err != nil {
			return err
		}
	}
	for name, ino := range t.Names {
		f := t.Inodes[ino]
		p := filepath.Join(dir, name)
		if err := os.MkdirAll(filepath.Dir(p), 0o755); err != nil {
			return err
		}
		fd, err := os.OpenFile(p, os.O_CREATE|os.O_WRONLY|os.O_TRUNC, 0o644)
		if err != nil {
			return err
		}
		if len(f.Data) > 0 {
			if _, err := fd.Write(f.Data); err != nil {
				fd.Close()
				return err
			}
		}
		if f.Size != int64(len(f.Data)) {
			if err := fd.Truncate(f.Size); err != nil {
				fd.Close()
				return err
			}
		}
		if err := fd.Close(); err != nil {
			return err
		}
	}
	return nil
}

// CheckAgainstDisk compares the live model with the real directory (simulator self-check). Files the simulator
// never saw (the lock file, which flock creates with the real os package) are ignored.
func (s *FS) CheckAgainstDisk() error {
	s.harvest()
	for name, ino := range s.Live.Names {
		f := s.Live.Inodes[ino]
		p := filepath.Join(s.Root, name)
		st, err := os.Stat(p)
		if err != nil {
			return fmt.Errorf("model has %s, disk: %v", name, err)
		}
		if st.Size() != f.Size {
			return fmt.Errorf("%s: model size %d, disk size %d", name, f.Size, st.Size())
		}
		fd, err := os.Open(p)
		if err != nil {
			return err
		}
		buf := make([]byte, len(f.Data))
		_, err = io.ReadFull(fd, buf)
		fd.Close()
		if err != nil {
			return fmt.Errorf("%s: read: %v", name, err)
		}
		if string(buf) != string(f.Data) {
			return fmt.Errorf("%s: model bytes differ from disk bytes", name)
		}
	}
	return filepath.Walk(s.Root, func(path string, info fs.FileInfo, err error) error {
		if err != nil || info.IsDir() {
			return nil
		}
		rel, _ := s.rel(path)
		if strings.HasSuffix(rel, ".lock") {
			return nil
		}
		if _, ok := s.Live.Names[rel]; !ok {
			return fmt.Errorf("disk has %s, model does not", rel)
		}
		return nil
	})
}

// ---- pass-through identifiers of package os used by the engine or plausible edits of it ----

const (
	O_RDONLY = os.O_RDONLY
	O_WRONLY = os.O_WRONLY
	O_RDWR   = os.O_RDWR
	O_APPEND = os.O_APPEND
	O_CREATE = os.O_CREATE
	O_EXCL   = os.O_EXCL
	O_SYNC   = os.O_SYNC
	O_TRUNC  = os.O_TRUNC

	ModePerm = os.ModePerm
	ModeDir  = os.ModeDir

	PathSeparator = os.PathSeparator
)

var (
	ErrNotExist   = os.ErrNotExist
	ErrExist      = os.ErrExist
	ErrClosed     = os.ErrClosed
	ErrPermission = os.ErrPermission
	ErrInvalid    = os.ErrInvalid

	Stdout = os.Stdout
	Stderr = os.Stderr
	Stdin  = os.Stdin
	Args   = os.Args
)

var (
	IsNotExist      = os.IsNotExist
	IsExist         = os.IsExist
	IsPermission    = os.IsPermission
	TempDir         = os.TempDir
	Getwd           = os.Getwd
	Getpagesize     = os.Getpagesize
	Getenv          = os.Getenv
	Getpid          = os.Getpid
	Exit            = os.Exit
	MkdirTemp       = os.MkdirTemp
	UserHomeDir     = os.UserHomeDir
	SameFile        = os.SameFile
	Hostname        = os.Hostname
	Environ         = os.Environ
	LookupEnv       = os.LookupEnv
	Setenv          = os.Setenv
	ExpandEnv       = os.ExpandEnv
	Executable      = os.Executable
	IsPathSeparator = os.IsPathSeparator
)

// Truncate shadows os.Truncate (by path).
//
//go:norace
func Truncate(name string, size int64) error {
	s := Cur
	rel, inside := "", false
	if s != nil {
		rel, inside = s.rel(name)
	}
	if !inside {
		return os.Truncate(name, size)
	}
	vrt.Point(vrt.PIO, uint32(KTruncate))
	s.harvest()
	if err := s.fault(KTruncate, rel); err != nil {
		return &os.PathError{Op: "truncate", Path: name, Err: err}
	}
	ino, _ := s.inoOf(rel, name)
	if err := os.Truncate(name, size); err != nil {
		return err
	}
	s.add(Entry{Kind: KTruncate, Ino: ino, Path: rel, Off: size})
	return nil
}

// further pass-through identifiers of package os (so that a plausible edit of the engine still compiles against
// the shadow package; none of them mutates the simulated tree)
const (
	SEEK_SET = os.SEEK_SET
	SEEK_CUR = os.SEEK_CUR
	SEEK_END = os.SEEK_END

	ModeAppend    = os.ModeAppend
	ModeExclusive = os.ModeExclusive
	ModeTemporary = os.ModeTemporary
	ModeSymlink   = os.ModeSymlink
	ModeType      = os.ModeType
	DevNull       = os.DevNull
)

var (
	Chmod      = os.Chmod
	Chtimes    = os.Chtimes
	Readlink   = os.Readlink
	Getuid     = os.Getuid
	Geteuid    = os.Geteuid
	Getgid     = os.Getgid
	Getppid    = os.Getppid
	CreateTemp = os.CreateTemp
	DirFS      = os.DirFS
	Unsetenv   = os.Unsetenv
	NewFile    = os.NewFile
	Interrupt  = os.Interrupt
	Kill       = os.Kill

	ErrDeadlineExceeded = os.ErrDeadlineExceeded
	ErrNoDeadline       = os.ErrNoDeadline
)

type (
	Signal       = os.Signal
	LinkError    = os.LinkError
	SyscallError = os.SyscallError
)

var errInjected = errors.New("injected I/O error")

// ErrInjected is the error returned by injected faults.
func ErrInjected() error { return errInjected }
