package vos

import (
	"bytes"
	"os"
	"syscall"
	"unsafe"

	"github.com/XiXi-2024/xixi-kv/vsim/vrt"
	mmap "github.com/edsrzf/mmap-go"
)

// MMap shadows mmap.MMap (github.com/edsrzf/mmap-go): a real mapping of the real file. Stores through it are
// invisible to the simulator when they happen, so before every later file-system event the live mappings are
// "harvested": the allocated extents of the file are compared with the model and the difference is journalled
// as KMWrite entries.
type MMap []byte

const (
	RDONLY = mmap.RDONLY
	RDWR   = mmap.RDWR
	COPY   = mmap.COPY
	EXEC   = mmap.EXEC
	ANON   = mmap.ANON
)

type mapping struct {
	base   uintptr
	length int
	ino    int
	rel    string
	real   mmap.MMap
	fd     *os.File // our own duplicate of the descriptor, for SEEK_DATA
	live   bool
}

// Map shadows mmap.Map.
func Map(f *File, prot, flags int) (MMap, error) { return MapRegion(f, -1, prot, flags, 0) }

// MapRegion shadows mmap.MapRegion.
//
//go:norace
func MapRegion(f *File, length int, prot, flags int, offset int64) (MMap, error) {
	s := f.sim()
	if s == nil {
		m, err := mmap.MapRegion(f.f, length, prot, flags, offset)
		return MMap(m), err
	}
	vrt.Point(vrt.PIO, uint32(KMap))
	s.harvest()
	if err := s.fault(KMap, f.rel); err != nil {
		return nil, err
	}
	m, err := mmap.MapRegion(f.f, length, prot, flags, offset)
	if err != nil {
		return nil, err
	}
	mp := &mapping{length: len(m), ino: f.ino, rel: f.rel, real: m, live: true}
	if len(m) > 0 {
		mp.base = uintptr(unsafe.Pointer(&m[0]))
	}
	if nfd, err := syscall.Dup(int(f.f.Fd())); err == nil {
		mp.fd = os.NewFile(uintptr(nfd), f.name)
	}
	s.maps = append(s.maps, mp)
	s.add(Entry{Kind: KMap, Ino: f.ino, Path: f.rel, Off: int64(len(m))})
	return MMap(m), nil
}

//go:norace
func findMapping(m MMap) (*FS, *mapping) {
	s := Cur
	if s == nil || len(m) == 0 {
		return nil, nil
	}
	base := uintptr(unsafe.Pointer(&m[0]))
	for _, mp := range s.maps {
		if mp.live && mp.base == base {
			return s, mp
		}
	}
	return nil, nil
}

// Flush shadows mmap.MMap.Flush (msync).
//
//go:norace
func (m MMap) Flush() error {
	s, mp := findMapping(m)
	if mp == nil {
		return mmap.MMap(m).Flush()
	}
	vrt.Point(vrt.PIO, uint32(KMSync))
	s.harvest()
	if err := s.fault(KMSync, mp.rel); err != nil {
		return err
	}
	if err := mmap.MMap(m).Flush(); err != nil {
		return err
	}
	s.add(Entry{Kind: KMSync, Ino: mp.ino, Path: mp.rel})
	return nil
}

func (m MMap) FlushAsync() error { return m.Flush() }
func (m MMap) Lock() error       { return mmap.MMap(m).Lock() }
func (m MMap) Unlock() error     { return mmap.MMap(m).Unlock() }

// Unmap shadows mmap.MMap.Unmap.
//
//go:norace
func (m *MMap) Unmap() error {
	s, mp := findMapping(*m)
	if mp == nil {
		r := mmap.MMap(*m)
		err := r.Unmap()
		*m = nil
		return err
	}
	vrt.Point(vrt.PIO, uint32(KUnmap))
	s.harvest()
	r := mmap.MMap(*m)
	err := r.Unmap()
	*m = nil
	mp.live = false
	if mp.fd != nil {
		_ = mp.fd.Close()
		mp.fd = nil
	}
	s.add(Entry{Kind: KUnmap, Ino: mp.ino, Path: mp.rel})
	return err
}

const (
	seekData = 3
	seekHole = 4
)

// harvest journals the stores made through live mappings since the last harvest.
//
//go:norace
func (s *FS) harvest() {
	if !s.JournalOn || len(s.maps) == 0 {
		return
	}
	n := 0
	for _, mp := range s.maps {
		if !mp.live {
			continue
		}
		s.maps[n] = mp
		n++
		s.harvestOne(mp)
	}
	s.maps = s.maps[:n]
}

//go:norace
func (s *FS) harvestOne(mp *mapping) {
	if mp.fd == nil {
		return
	}
	mf := s.Live.Inodes[mp.ino]
	if mf == nil {
		return
	}
	fd := int(mp.fd.Fd())
	var st syscall.Stat_t
	if err := syscall.Fstat(fd, &st); err != nil {
		return
	}
	size := st.Size
	if size > int64(mp.length) {
		size = int64(mp.length)
	}
	mem := mp.real
	off := int64(0)
	for off < size {
		d, err := syscall.Seek(fd, off, seekData)
		if err != nil || d >= size {
			break
		}
		h, err := syscall.Seek(fd, d, seekHole)
		if err != nil || h > size {
			h = size
		}
		s.diffExtent(mp, mf, mem, d, h)
		off = h
	}
}

// diffExtent compares mapping bytes [lo,hi) with the model and journals maximal differing runs.
//
//go:norace
func (s *FS) diffExtent(mp *mapping, mf *MFile, mem []byte, lo, hi int64) {
	for c := lo; c < hi; {
		ce := (c/4096 + 1) * 4096
		if ce > hi {
			ce = hi
		}
		if !chunkEqual(mem, mf, c, ce) {
			s.diffRange(mp, mem, c, ce)
			mf = s.Live.Inodes[mp.ino]
		}
		c = ce
	}
}

var zeroPage [4096]byte

//go:norace
func chunkEqual(mem []byte, mf *MFile, a, b int64) bool {
	n := int64(len(mf.Data))
	if b <= n {
		return bytes.Equal(mem[a:b], mf.Data[a:b])
	}
	if a < n {
		if !bytes.Equal(mem[a:n], mf.Data[a:n]) {
			return false
		}
		a = n
	}
	return bytes.Equal(mem[a:b], zeroPage[:b-a])
}

//go:norace
func (s *FS) diffRange(mp *mapping, mem []byte, lo, hi int64) {
	mf := s.Live.Inodes[mp.ino]
	i := lo
	for i < hi {
		var mb byte
		if i < int64(len(mf.Data)) {
			mb = mf.Data[i]
		}
		if mem[i] == mb {
			i++
			continue
		}
		// start of a differing run; extend while different, tolerating gaps of < 16 equal bytes
		start := i
		end := i + 1
		gap := 0
		for j := i + 1; j < hi; j++ {
			var b byte
			if j < int64(len(mf.Data)) {
				b = mf.Data[j]
			}
			if mem[j] != b {
				end = j + 1
				gap = 0
			} else {
				gap++
				if gap >= 16 {
					break
				}
			}
		}
		data := append([]byte(nil), mem[start:end]...)
		s.add(Entry{Kind: KMWrite, Ino: mp.ino, Path: mp.rel, Off: start, Data: data})
		mf = s.Live.Inodes[mp.ino]
		i = end
	}
}
