// Package h is the simulation harness: case format, generators, reference models, oracles, runners.
package h

import (
	"encoding/hex"
	"encoding/json"
	"fmt"
	"strings"

	"github.com/XiXi-2024/xixi-kv/vsim/vrt"
)

// Bytes is a byte string that marshals as readable JSON: printable ASCII as text, anything else as "0x<hex>".
type Bytes []byte

func (b Bytes) MarshalJSON() ([]byte, error) {
	printable := true
	for _, c := range b {
		if c < 0x20 || c > 0x7e {
			printable = false
			break
		}
	}
	if printable && !strings.HasPrefix(string(b), "0x") {
		return json.Marshal(string(b))
	}
	return json.Marshal("0x" + hex.EncodeToString(b))
}

func (b *Bytes) UnmarshalJSON(data []byte) error {
	var s string
	if err := json.Unmarshal(data, &s); err != nil {
		return err
	}
	if strings.HasPrefix(s, "0x") {
		d, err := hex.DecodeString(s[2:])
		if err != nil {
			return err
		}
		*b = d
		return nil
	}
	*b = []byte(s)
	return nil
}

// Val describes a value compactly: Len bytes derived from Tag (unique per write, so every read is attributable
// to one write). Raw, when set, is used verbatim instead.
type Val struct {
	Len int    `json:"len"`
	Tag uint32 `json:"tag"`
	Raw Bytes  `json:"raw,omitempty"`
	Z   int    `json:"z,omitempty"` // the value ends in this many zero bytes (only in runs flagged ZeroTail: standard I/O throughout)
}

// Bytes materialises the value.
func (v Val) Bytes() []byte {
	if v.Raw != nil {
		return []byte(v.Raw)
	}
	if v.Len == 0 {
		return []byte{}
	}
	b := make([]byte, v.Len)
	hdr := fmt.Sprintf("<%d:%d>", v.Tag, v.Len)
	n := copy(b, hdr)
	x := uint64(v.Tag)*0x9e3779b97f4a7c15 + 0x1234567
	for i := n; i < len(b); i++ {
		x ^= x << 13
		x ^= x >> 7
		x ^= x << 17
		b[i] = byte(x)
	}
	// a value never ends in a zero byte: stores through a memory mapping are recovered by diffing against the
	// (zero) model, so a trailing zero would be invisible and the logical end of an open mmap file ambiguous
	if b[len(b)-1] == 0 {
		b[len(b)-1] = 0x5a
	}
	if v.Z > 0 && len(b) > n+v.Z {
		// binary-looking values: little-endian counters, zero-padded fields (the tag in front keeps them unique)
		for i := len(b) - v.Z; i < len(b); i++ {
			b[i] = 0
		}
	}
	return b
}

// Config is the engine configuration of one Open.
type Config struct {
	Index    int8  `json:"index"`    // 1 BTree, 2 SkipList, 3 HashMap
	Shards   int   `json:"shards"`   // ShardNum
	IO       byte  `json:"io"`       // 0 standard, 1 mmap
	FileSize int64 `json:"filesize"` // DataFileSize
	Sync     byte  `json:"sync"`     // 0 No, 1 Always, 2 Threshold
	BPS      uint  `json:"bps"`      // BytesPerSync
}

func (c Config) String() string {
	return fmt.Sprintf("idx=%d shards=%d io=%d fsz=%d sync=%d bps=%d", c.Index, c.Shards, c.IO, c.FileSize, c.Sync, c.BPS)
}

// DefaultConfig is the simplest configuration (target of minimisation).
var DefaultConfig = Config{Index: 3, Shards: 16, IO: 0, FileSize: 1 << 20, Sync: 0, BPS: 0}

// Op is one generated client step.
type Op struct {
	K    string  `json:"k"`
	Key  Bytes   `json:"key,omitempty"`
	Val  *Val    `json:"val,omitempty"`
	F2   Bytes   `json:"f2,omitempty"`   // hash field / set or zset member
	Sub  []Op    `json:"sub,omitempty"`  // batch body / iterator calls
	Cfg  *Config `json:"cfg,omitempty"`  // restart configuration
	Flag bool    `json:"flag,omitempty"` // batch Sync option / iterator Reverse / fold early stop
	N    int     `json:"n,omitempty"`    // small integer argument (backup dir number, fold stop index, ...)
	Dt   int64   `json:"dt,omitempty"`   // clock advance (ns) applied after the step
	F    float64 `json:"f,omitempty"`    // zset score
}

// Crash pins one crash image (replay of a crash-arm violation).
type Crash struct {
	Pos       int         `json:"pos"`                 // journal position: entries [0,Pos) survive
	Cut       map[int]int `json:"cut,omitempty"`       // power loss: journal index -> bytes kept of that data entry
	Power     bool        `json:"power,omitempty"`     // power loss (else process crash)
	Pos2      int         `json:"pos2,omitempty"`      // second-level crash position inside the recovery (0 = none); stored +1
	OtherCfg  bool        `json:"othercfg,omitempty"`  // the image is reopened under another reader configuration
	ClockBack bool        `json:"clockback,omitempty"` // the wall clock was stepped back to the start of the operation in flight
}

// Damage pins one stored-byte fault.
type Damage struct {
	File string `json:"file"`
	Live bool   `json:"live,omitempty"` // applied while the database is open (standard I/O)
	Kind string `json:"kind"`           // flip | overwrite | truncate | garbage | zero | transplant
	Off  int64  `json:"off"`
	Src  int64  `json:"src,omitempty"` // transplant: the Len bytes at Src (a whole record of the same file) replace those at Off
	Bit  int    `json:"bit,omitempty"`
	Len  int    `json:"len,omitempty"`
	Seed uint64 `json:"seed,omitempty"`
}

// Case is one complete, self-contained simulation input: execution is a pure function of it and of the code.
type Case struct {
	StdIO    bool           `json:"stdio,omitempty"`    // every Open of the run uses standard I/O (resource reasons, see gen.go withKill)
	ZeroTail bool           `json:"zerotail,omitempty"` // values may end in zero bytes; every Open of the run uses standard I/O (the model of an open mapped file cannot see trailing zeros)
	Prop     string         `json:"prop"`
	Arm      string         `json:"arm"`
	Seed     uint64         `json:"seed"`
	Cfg      Config         `json:"cfg"`
	Cfgs     []Config       `json:"cfgs,omitempty"` // C14: further configurations run in lock-step
	Setup    []Op           `json:"setup,omitempty"`
	Clients  [][]Op         `json:"clients"`
	Sched    vrt.Policy     `json:"sched"`
	Clock    int64          `json:"clock"`
	MapSeed  uint64         `json:"mapseed"`
	Hostile  bool           `json:"hostile,omitempty"`
	BaseFile uint32         `json:"basefile,omitempty"` // an empty data file with this id exists before the first Open (the directory of a long-lived database: file ids beyond the varint width boundaries 128 and 16384)
	Slash    bool           `json:"slash,omitempty"`    // the data directory is named with a trailing path separator
	Crash    *Crash         `json:"crash,omitempty"`
	Damage   *Damage        `json:"damage,omitempty"`
	Free     int64          `json:"free,omitempty"`     // simulated free disk space (0 = plenty)
	FaultAt  int            `json:"faultat,omitempty"`  // inject an I/O error at the n-th eligible call (+1; 0 = none)
	PowerPct int            `json:"powerpct,omitempty"` // crash arms: percentage of positions that also get power-loss cuts
	Cuts     int            `json:"cuts,omitempty"`     // power-loss cut vectors per chosen position
	Knobs    map[string]int `json:"knobs,omitempty"`    // arm-specific budgets (bit flips per run, ...)
	Adaptive bool           `json:"-"`                  // generation in progress: ops are produced while executing
}

// Hash is a stable hash of the case content.
func (c *Case) Hash() uint64 {
	b, _ := json.Marshal(c)
	return vrt.HashString(string(b))
}

// Clone deep-copies a case through JSON.
func (c *Case) Clone() *Case {
	b, _ := json.Marshal(c)
	var n Case
	_ = json.Unmarshal(b, &n)
	return &n
}

// Violation describes one property violation found by a run.
type Violation struct {
	Prop   string `json:"prop"`
	Oracle string `json:"oracle"` // short stable name of the oracle that fired
	Sig    string `json:"sig"`    // classification signature (oracle + discriminating detail), stable across shrinking
	Detail string `json:"detail"` // human-readable description
	Step   int    `json:"step"`
}

// Result is what one run reports.
type Result struct {
	Idx        int              `json:"idx"`
	Seed       uint64           `json:"seed"`
	Outcome    string           `json:"outcome"` // ok | violation | aborted_aux | infra
	Violation  *Violation       `json:"violation,omitempty"`
	Note       string           `json:"note,omitempty"`
	CaseHash   uint64           `json:"casehash"`
	Nontrivial bool             `json:"nontrivial"`
	Counters   map[string]int64 `json:"counters,omitempty"`
	Traces     []uint64         `json:"traces,omitempty"` // interleaving hashes
	States     []uint64         `json:"states,omitempty"` // abstract-state hashes
	SimNs      int64            `json:"simns"`
	Events     uint64           `json:"events"`
	Case       *Case            `json:"case,omitempty"` // present for violations and samples
	WallUs     int64            `json:"wallus"`
	Known      []KnownHit       `json:"known,omitempty"` // recorded known findings met (and stepped over) by this run
	JournalH   uint64           `json:"journalh"`        // hash of every journal entry (kind, path, offset, length, content crc, op, event stamp)
}
