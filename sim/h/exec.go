package h

import (
	"time"
)

// RunSeed derives the seed of run idx from the check's base seed.
func RunSeed(base uint64, prop string, idx int) uint64 {
	x := base*0x9e3779b97f4a7c15 + uint64(idx)*0xbf58476d1ce4e5b9
	for i := 0; i < len(prop); i++ {
		x = (x ^ uint64(prop[i])) * 0x100000001b3
	}
	x ^= x >> 31
	x *= 0x94d049bb133111eb
	x ^= x >> 29
	return x
}

// Execute runs a case (generating it adaptively when gen != nil) and returns the result.
func Execute(c *Case, gen func(r *Runner, i int) *Op, idx int) *Result {
	start := time.Now()
	r := NewRunner(c)
	r.gen = gen
	if idx >= 0 {
		inflightBegin(c)
	}
	switch c.Arm {
	case "seq":
		r.RunSeq()
	default:
		if f, ok := arms[c.Arm]; ok {
			f(r)
		} else {
			r.Infra = "unknown arm " + c.Arm
		}
	}
	r.gen = nil
	res := r.result(idx, c.Seed, start)
	res.Nontrivial = nontrivial(r)
	return res
}

// arms maps arm names to runners (filled by the files that implement them).
var arms = map[string]func(r *Runner){}

// nontrivial applies the property's own rule for a case that exercised something worth counting.
func nontrivial(r *Runner) bool {
	if f, ok := nontrivialRules[r.C.Prop]; ok {
		return f(r)
	}
	return len(r.States) > 2
}

var nontrivialRules = map[string]func(r *Runner) bool{
	"C01": func(r *Runner) bool { return r.Cnt["overwrites"]+r.Cnt["deletes_present"] > 0 && r.Cnt["gets"] > 1 },
}

// NontrivialRuleText documents the rules (copied into the evidence).
var NontrivialRuleText = map[string]string{
	"C01": "case has >=1 overwrite or delete of a present key and >=2 judged reads; distinct = distinct hash of the executed case (config + concrete operations)",
}
