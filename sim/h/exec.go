package h

import (
	"time"
)

// RunSeed derives the seed of run idx from the check's base seed.
func RunSeed(base uint64, prop string, idx int) uint64 {
	x := base*0x9e3779b97f4a7c15 + uint64(idx)*0xbf58476d1ce4e5b9
	for i := 0; i < len(prop); i++ {
		x = (x ^ uint64(prop[i])) * 0x100000001b3
	}
	x ^= x >> 31
	x *= 0x94d049bb133111eb
	x ^= x >> 29
	return x
}

// Execute runs a case (generating it adaptively when gen != nil) and returns the result.
func Execute(c *Case, gen func(r *Runner, i int) *Op, idx int) *Result {
	start := time.Now()
	r := NewRunner(c)
	r.gen = gen
	if idx >= 0 {
		inflightBegin(c)
	}
	switch c.Arm {
	case "seq":
		r.RunSeq()
	default:
		if f, ok := arms[c.Arm]; ok {
			f(r)
		} else {
			r.Infra = "unknown arm " + c.Arm
		}
	}
	r.gen = nil
	res := r.result(idx, c.Seed, start)
	res.Nontrivial = nontrivial(r)
	return res
}

// arms maps arm names to runners (filled by the files that implement them).
var arms = map[string]func(r *Runner){}

// nontrivial applies the property's own rule for a case that exercised something worth counting.
func nontrivial(r *Runner) bool {
	if f, ok := nontrivialRules[r.C.Prop]; ok {
		return f(r)
	}
	return len(r.States) > 2
}

var nontrivialRules = map[string]func(r *Runner) bool{
	"C01": func(r *Runner) bool { return r.Cnt["overwrites"]+r.Cnt["deletes_present"] > 0 && r.Cnt["gets"] > 1 },
	"C02": func(r *Runner) bool { return r.Cnt["restarts"] > 0 && len(r.States) > 2 },
	"C03": func(r *Runner) bool { return r.Cnt["images_ok"] > 3 && (len(r.States) > 2 || r.Cnt["cc_groups"] > 1) },
	"C04": func(r *Runner) bool { return r.Cnt["images_ok"] > 3 && r.Cnt["batches"]+r.Cnt["cc_batches"] > 0 },
	"C07": func(r *Runner) bool { return r.Cnt["images_ok"] > 3 && r.Cnt["merges"]+r.Cnt["cc_merges"] > 0 },
	"C11": func(r *Runner) bool { return r.Cnt["df_records"] > 1 && r.Cnt["df_verifications"] > 1 },
	"C12": func(r *Runner) bool { return r.Cnt["damage_images"] > 10 && len(r.States) > 1 },
	"C08": func(r *Runner) bool { return r.Cnt["sched_switches"] > 1 && r.Cnt["conc_puts"]+r.Cnt["conc_dels"] > 1 },
	"C09": func(r *Runner) bool { return r.Cnt["sched_switches"] > 1 },
	"C05": func(r *Runner) bool {
		return (r.Cnt["batches"] > 0 && r.Cnt["batch_repeat_key"]+r.Cnt["batch_get_from_db"] > 0) || r.Cnt["conc_batch_unstaged_reads"] > 0
	},
	"C06": func(r *Runner) bool {
		return (r.Cnt["merges"] > 0 && r.Cnt["restarts_after_merge"] > 0) || (r.Cnt["conc_merges"] > 0 && r.Cnt["sched_switches"] > 1)
	},
	"C10": func(r *Runner) bool { return r.Cnt["iter_sessions_multi"]+r.Cnt["conc_iter_sessions_multi"] > 0 },
	"C13": func(r *Runner) bool {
		return r.Cnt["always_checks"]+r.Cnt["threshold_checks"]+r.Cnt["sync_batch_checks"]+r.Cnt["all_synced_checks"] > 1
	},
	"C14": func(r *Runner) bool { return r.Cnt["configs_compared"] > 0 && r.Cnt["transcript_entries"] > 5 },
	"C15": func(r *Runner) bool { return r.Cnt["puts"]+r.Cnt["batch_ops"] > 2 },
	"C17": func(r *Runner) bool {
		return (r.Cnt["stat_checks"] > 2 && r.Cnt["overwrites"]+r.Cnt["deletes_present"] > 0) || (r.Cnt["stat_checks"] > 1 && r.Cnt["sched_switches"] > 1)
	},
	"C18": func(r *Runner) bool { return r.Cnt["hint_checks"] > 0 && r.Cnt["hint_entries"] > 1 },
	"C16": func(r *Runner) bool {
		return r.Cnt["opens_ok"] > 0 && r.Cnt["opens_rejected"]+r.Cnt["opens_failed_other"] > 0
	},
	"C19": func(r *Runner) bool { return r.Cnt["dt_commands"] > 5 },
	"C20": func(r *Runner) bool { return (r.Cnt["backups"] > 0 && len(r.States) > 2) || r.Cnt["conc_backups"] > 0 },
}

// NontrivialRuleText documents the rules (copied into the evidence).
var NontrivialRuleText = map[string]string{
	"C01": "case has >=1 overwrite or delete of a present key and >=2 judged reads; distinct = distinct hash of the executed case (config + concrete operations)",
	"C02": "case has >=1 restart and >=2 acknowledged mutations; distinct = distinct hash of the executed case",
	"C03": "run has >=2 acknowledged mutations and >=4 crash images whose recovery was judged; distinct = distinct hash of the executed case; every journal position of a run is a process-crash image, a seeded subset also gets power-loss cuts; a fifth of the runs crash a database used by several clients at once (>=2 recorded mutations)",
	"C04": "run has >=1 committed batch and >=4 judged crash images (a fifth of the runs: batches committed by several concurrent clients); distinct = distinct case hash",
	"C07": "run has >=1 successful Merge and >=4 judged crash images inside Merge / the adopting Open (plus their second-level images), or - a fifth of the runs - inside a Merge that runs next to concurrent writers; distinct = distinct case hash",
	"C11": "run wrote >=2 records through both back-ends and verified them at least twice (before and after reopen); distinct = distinct hash of the executed case; the thorough tier walks start offset = runIndex mod 32768 with all 19 end distances -9..+9 per run",
	"C12": "run built a database with >=1 acknowledged mutation and judged >10 damaged images of it; distinct = distinct hash of the executed case; bit flips are complete for runs whose files total <= the flipall knob (counted in exhaustive_flip_runs), sampled otherwise",
	"C08": "run had >=2 context switches among clients and >=2 concurrent writes; distinct = distinct hash of (programs, configuration, explicit schedule); interleavings counted separately as distinct (task, point kind, lock id) sequences",
	"C09": "run had >=2 context switches among clients issuing the listed calls; distinct = distinct hash of (programs, configuration, explicit schedule)",
	"C05": "case has >=1 committed batch with a repeated key or a read that falls through to the database; distinct = distinct case hash",
	"C06": "case has >=1 successful Merge followed by an adopting restart; distinct = distinct case hash",
	"C10": "case has >=1 iterator session over >=2 visible keys; distinct = distinct case hash",
	"C13": "case reached >=2 policy-invariant evaluations (Always / Threshold / Sync batch / Sync()/Close()); a fifth of the runs: several concurrent callers, judged per call on the journal; distinct = distinct case hash",
	"C14": "one program of >5 transcript entries executed under >=2 configurations; distinct = distinct hash of (program, configuration tuple)",
	"C15": "case made >=3 writes through the reused, poisoned caller buffers; distinct = distinct case hash",
	"C17": "case has >=3 exact Stat recomputations and >=1 overwrite or delete (or, 15% of the runs: concurrent clients, Stat recomputed at quiescence and after the restart); distinct = distinct case hash",
	"C18": "case has >=1 hint file with >=2 entries compared entry by entry with the merged files (a fifth of the runs: the merge ran next to concurrent writers); distinct = distinct case hash",
	"C16": "run has >=1 successful Open and >=1 rejected or failing Open; distinct = distinct hash of (party programs, explicit schedule)",
	"C19": "command sequence with >5 judged commands; distinct = distinct hash of the executed case (commands, keys, clock steps)",
	"C20": "case has >=1 backup of a database with >=2 acknowledged mutations; distinct = distinct case hash",
}
