package h

import (
	"fmt"
	"strings"

	"github.com/XiXi-2024/xixi-kv/vsim/vrt"
)

const blockSz = 32 * 1024

var fileSizes = []int64{64, 200, 512, 1024, 4096, 20000, blockSz, blockSz + 100, 2 * blockSz, 100_000, 256 * 1024, 1 << 20}
var tinyFileSizes = []int64{1, 8, 30} // smaller than any record: every write rotates
var shardNums = []int{1, 2, 3, 16, 16, 1000, 5000}
var bpsVals = []uint{1, 64, 512, 4096, 65536}

// genConfig draws an engine configuration. small biases towards tiny files (many rotations).
func genConfig(rng *vrt.Rand, small bool) Config {
	c := Config{}
	c.Index = int8(rng.Range(1, 3))
	c.Shards = shardNums[rng.Intn(len(shardNums))]
	// a skip-list index seeds one PRNG per shard (~50us each): 1000 shards make every Open cost ~50 ms, so that
	// combination is kept rare (it is still drawn, so it is still covered)
	if c.Index == 2 && c.Shards > 16 && !rng.Chance(0.05) {
		c.Shards = shardNums[rng.Intn(5)]
	}
	c.IO = byte(rng.Intn(2))
	if small {
		c.FileSize = fileSizes[rng.Intn(6)]
	} else {
		c.FileSize = fileSizes[rng.Intn(len(fileSizes))]
	}
	if rng.Chance(0.03) {
		c.FileSize = tinyFileSizes[rng.Intn(len(tinyFileSizes))]
	}
	c.Sync = byte(rng.Intn(3))
	c.BPS = bpsVals[rng.Intn(len(bpsVals))]
	if c.Sync != 2 && rng.Chance(0.2) {
		c.BPS = 0 // legal unless the strategy is Threshold
	}
	return c
}

// genKeys draws a key space of n keys.
func genKeys(rng *vrt.Rand, n int) [][]byte {
	var keys [][]byte
	style := rng.Intn(4)
	for i := 0; i < n; i++ {
		var k []byte
		switch {
		case rng.Chance(0.05):
			// long key
			k = []byte(fmt.Sprintf("long%d-%s", i, strings.Repeat("x", rng.Range(100, 300))))
		case rng.Chance(0.08):
			// binary key with varint-looking bytes
			k = []byte{0x80, 0xff, byte(i), 0x01, 0x00, 0x96}
		case rng.Chance(0.04) || (zeroTailRun && rng.Chance(0.25)):
			// a key that extends an earlier key (prefix of another), by the smallest usable byte, a digit or 0xff.
			// No key ends in a zero byte: a tombstone or an empty-valued record then ends in it, and a store through
			// a memory mapping is recovered by diffing against the zero model, to which a trailing zero is invisible
			// (the same reason values never end in one); zero bytes inside keys stay covered.
			if i > 0 {
				k = append(append([]byte{}, keys[rng.Intn(i)]...), []byte{0x01, '0', 0xff}[rng.Intn(3)])
			} else {
				k = []byte{0x00, 0x01}
			}
			if zeroTailRun {
				// standard I/O throughout: the model is exact, so a key may end in a zero byte after all (its
				// tombstone and its empty-valued record then end in it)
				if i > 0 && rng.Chance(0.5) {
					k = append(append([]byte{}, keys[rng.Intn(i)]...), 0x00)
				} else {
					k = []byte{0x00}
				}
			}
		case rng.Chance(0.01):
			// a key longer than the two-byte varint range
			k = []byte(fmt.Sprintf("huge%d-%s", i, strings.Repeat("y", rng.Range(16384, 17000))))
		case rng.Chance(0.006):
			// a key longer than a block: its record and its hint entry span several chunks whatever the value is
			k = []byte(fmt.Sprintf("giant%d-%s", i, strings.Repeat("z", rng.Range(33000, 70000))))
		case style == 0:
			k = []byte(fmt.Sprintf("k%d", i))
		case style == 1:
			k = []byte(fmt.Sprintf("%c%c", 'a'+byte(i/3), 'a'+byte(i%3))) // shared prefixes
		case style == 2:
			k = []byte(fmt.Sprintf("key-%03d", i*7))
		default:
			k = []byte(fmt.Sprintf("%d", i))
		}
		keys = append(keys, k)
	}
	return keys
}

// Swarm is the per-run draw of workload parameters.
type Swarm struct {
	Keys     [][]byte
	W        map[string]int // op weights
	ValW     []int          // value-length class weights
	Steps    int
	Small    bool
	tag      uint32
	ovh      int // learned per-record overhead in bytes
	lastSz   int64
	lastAct  string
	ZeroTail bool // values may end in zero bytes (the run is standard I/O throughout)
	Bulk     int  // when > 0 the run begins by loading this many keys (index structures beyond their first node, hint files beyond one block)
}

var valClasses = []string{"empty", "tiny", "small", "mid", "boundary", "blocks", "overfile", "varint"}

// lengths on the width boundaries of the varints of the record header, and exact block payloads
var varintValLens = []int{63, 64, 65, 8191, 8192, 8193, blockSz - 7, 2*blockSz - 14, 1048575, 1048576}

func newSwarm(rng *vrt.Rand, ops []string, maxSteps int) *Swarm {
	s := &Swarm{W: map[string]int{}, ovh: 12, Bulk: bulkShare, ZeroTail: zeroTailRun}
	if killRun {
		s.W["kill"] = 1
	}
	s.Keys = genKeys(rng, rng.Range(1, 8))
	for _, o := range ops {
		if rng.Chance(0.8) {
			s.W[o] = rng.Range(1, 10)
		}
	}
	s.ValW = make([]int, len(valClasses))
	for i := range s.ValW {
		if rng.Chance(0.6) {
			s.ValW[i] = rng.Range(1, 6)
		}
	}
	s.ValW[1] += 2
	// large values are expensive: keep them a minority
	s.ValW[5] = min(s.ValW[5], 1)
	s.ValW[7] = min(s.ValW[7], 1)
	if rng.Chance(0.5) {
		s.Steps = rng.Range(3, 12)
	} else {
		s.Steps = rng.Range(10, maxSteps)
	}
	return s
}

func (s *Swarm) key(rng *vrt.Rand) []byte { return s.Keys[rng.Intn(len(s.Keys))] }

func (s *Swarm) nextTag() uint32 { s.tag++; return s.tag }

// valLen draws a value length; r gives access to the simulated disk so that lengths can be aimed at block
// boundaries of the active file as observed in the journal (not computed from the engine's own arithmetic).
func (s *Swarm) valLen(rng *vrt.Rand, r *Runner, keyLen int) int {
	switch valClasses[rng.Pick(s.ValW)] {
	case "empty":
		return 0
	case "tiny":
		return rng.Range(1, 32)
	case "small":
		return rng.Range(33, 600)
	case "mid":
		return rng.Range(601, 9000)
	case "boundary":
		cur := int64(0)
		if r != nil {
			if _, f := r.activeDataFile(); f != nil {
				cur = f.Size % blockSz
			}
		}
		d := int64(rng.Range(-9, 9))
		total := (blockSz - d - cur) % blockSz
		if total < 0 {
			total += blockSz
		}
		n := int(total) - keyLen - s.ovh
		if n < 0 {
			n += blockSz - 7
		}
		if rng.Chance(0.15) {
			n += blockSz - 7 // one more block
		}
		return n
	case "blocks":
		return rng.Range(blockSz-40, 3*blockSz+40)
	case "overfile":
		if r != nil && r.Cfg.FileSize <= 300_000 {
			return int(r.Cfg.FileSize) + rng.Range(-40, 40)
		}
		return rng.Range(1, 64)
	case "varint":
		n := varintValLens[rng.Intn(len(varintValLens))]
		if n > 100_000 && !rng.Chance(0.05) { // the 1 MiB lengths are expensive: rare
			n = varintValLens[rng.Intn(6)]
		}
		if rng.Chance(0.3) {
			n -= keyLen // so that key+value sits on the boundary instead
			if n < 0 {
				n = 0
			}
		}
		return n
	}
	return 1
}

func (s *Swarm) val(rng *vrt.Rand, r *Runner, keyLen int) *Val {
	n := s.valLen(rng, r, keyLen)
	if n < 0 {
		n = 0
	}
	v := &Val{Len: n, Tag: s.nextTag()}
	if s.ZeroTail && n > 16 && rng.Chance(0.4) {
		v.Z = rng.Range(1, 3)
	}
	return v
}

// learn observes how much the active file grew for the last plain put, to estimate per-record overhead.
func (s *Swarm) learn(r *Runner, op *Op) {
	name, f := r.activeDataFile()
	if f == nil {
		return
	}
	if op.K == "put" && name == s.lastAct && op.Val != nil {
		grow := f.Size - s.lastSz
		pay := int64(len(op.Key) + op.Val.Len)
		if grow > pay && grow-pay < 40 {
			s.ovh = int(grow - pay)
		}
	}
	s.lastAct, s.lastSz = name, f.Size
}

func (s *Swarm) dt(rng *vrt.Rand) int64 {
	switch rng.Intn(4) {
	case 0:
		return int64(rng.Range(1, 900_000)) // sub-millisecond
	case 1:
		return int64(rng.Range(1, 50)) * 1_000_000
	case 2:
		return int64(rng.Range(1, 120)) * 1_000_000_000
	}
	return 1000
}

// genBatch draws a batch step.
func (s *Swarm) genBatch(rng *vrt.Rand, r *Runner, maxOps int, withGets bool) *Op {
	op := &Op{K: "batch", Flag: rng.Chance(0.3)}
	n := rng.Range(1, maxOps)
	for i := 0; i < n; i++ {
		k := s.key(rng)
		switch x := rng.Intn(10); {
		case x < 6:
			op.Sub = append(op.Sub, Op{K: "bput", Key: k, Val: s.val(rng, r, len(k))})
		case x < 8:
			op.Sub = append(op.Sub, Op{K: "bdel", Key: k})
		default:
			if withGets {
				op.Sub = append(op.Sub, Op{K: "bget", Key: k})
			} else {
				op.Sub = append(op.Sub, Op{K: "bput", Key: k, Val: s.val(rng, r, len(k))})
			}
		}
	}
	op.Sub = append(op.Sub, Op{K: "commit"})
	return op
}

// genPlain produces the generic adaptive generator used by the single-client arms: it draws steps by weight.
func (s *Swarm) genPlain(rng *vrt.Rand, restartCfg func() *Config) func(r *Runner, i int) *Op {
	kinds := make([]string, 0, len(s.W))
	for _, k := range []string{"put", "del", "get", "sync", "merge", "list", "fold", "stat", "restart", "kill", "batch", "iter", "backup"} {
		if s.W[k] > 0 {
			kinds = append(kinds, k)
		}
	}
	weights := make([]int, len(kinds))
	for i, k := range kinds {
		weights[i] = s.W[k]
	}
	var prev *Op
	backups := 0
	return func(r *Runner, i int) *Op {
		if prev != nil {
			s.learn(r, prev)
		}
		if i >= s.Steps || len(kinds) == 0 {
			return nil
		}
		if i == 0 && s.Bulk > 0 {
			s.tag += uint32(s.Bulk)
			prefix := "b"
			if rng.Chance(0.3) {
				prefix = "b" + strings.Repeat("p", rng.Range(60, 120)) // long keys: a few hundred hint entries then span several blocks
			}
			op := &Op{K: "bulk", Key: Bytes(prefix), N: s.Bulk, Val: &Val{Len: rng.Range(0, 12), Tag: 1<<24 + s.tag}, Dt: s.dt(rng)}
			for j := 0; j < 5; j++ { // later operations also aim at some of the loaded keys
				s.Keys = append(s.Keys, []byte(fmt.Sprintf("%s%04d", prefix, rng.Intn(s.Bulk))))
			}
			prev = nil
			return op
		}
		k := kinds[rng.Pick(weights)]
		if i == 0 && rng.Chance(0.7) {
			k = "put"
		}
		op := &Op{K: k, Dt: s.dt(rng)}
		switch k {
		case "put":
			op.Key = s.key(rng)
			if rng.Chance(0.01) {
				op.Key = nil
			}
			op.Val = s.val(rng, r, len(op.Key))
		case "del", "get":
			op.Key = s.key(rng)
			if rng.Chance(0.01) {
				op.Key = nil
			}
		case "fold":
			if rng.Chance(0.3) {
				op.Flag = true
				op.N = rng.Intn(4)
			}
			if rng.Chance(0.3) {
				// the callback overwrites or deletes keys while the scan is under way (often ones it has not reached yet)
				for j := 0; j < rng.Range(1, 3); j++ {
					k := s.key(rng)
					w := Op{K: "put", Key: k, N: rng.Intn(3)}
					if rng.Chance(0.4) {
						w.K = "del"
					} else {
						w.Val = s.val(rng, r, len(k))
					}
					op.Sub = append(op.Sub, w)
				}
			}
		case "restart", "kill":
			op.Cfg = restartCfg()
			if k == "kill" && rng.Chance(0.5) {
				b := s.genBatch(rng, r, 8, false) // the process dies inside this batch, before Commit
				op.Sub = b.Sub[:len(b.Sub)-1]
			}
		case "batch":
			op = s.genBatch(rng, r, 6, true)
			op.Dt = s.dt(rng)
		case "iter":
			op = s.genIter(rng, r)
		case "backup":
			backups++
			op.N = backups
			op.F = float64(rng.Pick([]int{5, 1, 1, 1, 1, 2})) // how the destination is named (see backupDir)
		}
		prev = op
		return op
	}
}

// genIter draws an iterator session valid under the property's restriction: the first call is Rewind or Seek and
// every Seek target is at or ahead of the cursor in iteration order.
func (s *Swarm) genIter(rng *vrt.Rand, r *Runner) *Op {
	op := &Op{K: "iter", Flag: rng.Chance(0.5)}
	keys := sortedKeys(r.M)
	// prefix
	switch rng.Intn(5) {
	case 0:
		if len(keys) > 0 {
			k := keys[rng.Intn(len(keys))]
			op.Key = Bytes(k[:rng.Range(1, len(k))])
		}
	case 1:
		op.Key = Bytes("zz-none")
	case 2:
		if len(keys) > 0 {
			op.Key = Bytes(keys[rng.Intn(len(keys))] + "-longer")
		}
	}
	var vis []string
	for _, k := range keys {
		if strings.HasPrefix(k, string(op.Key)) {
			vis = append(vis, k)
		}
	}
	if op.Flag {
		for a, b := 0, len(vis)-1; a < b; a, b = a+1, b-1 {
			vis[a], vis[b] = vis[b], vis[a]
		}
	}
	pos := 0
	ahead := func(t string) bool { // target not yet passed
		if pos >= len(vis) {
			return false
		}
		if op.Flag {
			return t <= vis[pos]
		}
		return t >= vis[pos]
	}
	seekTarget := func() (string, bool) {
		var cands []string
		for _, k := range keys {
			cands = append(cands, k, k+"\x00", k[:len(k)-1])
		}
		cands = append(cands, "", "\xff\xff", "m")
		for try := 0; try < 8; try++ {
			t := cands[rng.Intn(len(cands))]
			if ahead(t) {
				return t, true
			}
		}
		return "", false
	}
	apply := func(t string) {
		np := len(vis)
		for j, k := range vis {
			if (!op.Flag && k >= t) || (op.Flag && k <= t) {
				np = j
				break
			}
		}
		pos = np
	}
	n := rng.Range(1, 14)
	for i := 0; i < n; i++ {
		x := rng.Intn(10)
		if i == 0 && x >= 4 {
			x = rng.Intn(4)
		}
		switch {
		case x < 2:
			op.Sub = append(op.Sub, Op{K: "rewind"})
			pos = 0
		case x < 4:
			if t, ok := seekTarget(); ok {
				op.Sub = append(op.Sub, Op{K: "seek", Key: Bytes(t)})
				apply(t)
			} else {
				op.Sub = append(op.Sub, Op{K: "rewind"})
				pos = 0
			}
		case x < 8:
			op.Sub = append(op.Sub, Op{K: "next"})
			if pos < len(vis) {
				pos++
			}
		case x == 8:
			k := s.key(rng)
			op.Sub = append(op.Sub, Op{K: "put", Key: k, Val: s.val(rng, r, len(k))})
		default:
			if rng.Chance(0.2) {
				op.Sub = append(op.Sub, Op{K: "merge"})
			} else {
				op.Sub = append(op.Sub, Op{K: "del", Key: s.key(rng)})
			}
		}
	}
	// often: a full pass to the end
	if rng.Chance(0.5) {
		op.Sub = append(op.Sub, Op{K: "rewind"})
		for i := 0; i <= len(vis); i++ {
			op.Sub = append(op.Sub, Op{K: "next"})
		}
	}
	return op
}

// baseFile draws the id of a pre-existing empty data file: mostly none, else just below a varint width boundary of
// the hint encoding so that the run's rotations cross it.
func baseFile(rng *vrt.Rand) uint32 {
	// only the first boundary: adopting a merge visits every file id below the marker, so a base of 16384 would make
	// each adoption cost ~16000 file-system calls (a cost of the engine's loop, not a property matter)
	if rng.Intn(8) == 0 {
		return uint32(rng.Range(118, 127))
	}
	return 0
}

// GenCase derives the case for (property, runSeed). For adaptive arms the returned runner carries a generator
// that fills in the client program while the run executes.
func GenCase(prop string, seed uint64, tier string) (*Case, func(r *Runner, i int) *Op) {
	rng := vrt.NewRand(vrt.Mix(seed, vrt.HashString(prop)))
	c := &Case{Prop: prop, Seed: seed, Clients: [][]Op{nil}}
	c.Clock = 1_600_000_000_000_000_000 + rng.Int63n(200_000_000)*1_000_000_000 + rng.Int63n(1_000_000_000)
	c.MapSeed = rng.Uint64()
	c.Sched = vrt.Policy{Mode: "seq", Seed: rng.Uint64()}
	g, ok := generators[prop]
	if !ok {
		return nil, nil
	}
	return c, g(c, rng, tier)
}

type genFn func(c *Case, rng *vrt.Rand, tier string) func(r *Runner, i int) *Op

var generators = map[string]genFn{}

func init() {
	generators["C01"] = func(c *Case, rng *vrt.Rand, tier string) func(r *Runner, i int) *Op {
		c.Arm = "seq"
		small := rng.Chance(0.6)
		c.Cfg = genConfig(rng, small)
		c.BaseFile = baseFile(rng)
		s := newSwarm(rng, []string{"put", "put", "del", "get", "sync", "merge", "list", "fold", "restart", "batch"}, 60)
		s.W["put"] += 4
		s.W["get"] += 2
		if s.W["restart"] > 2 {
			s.W["restart"] = 2
		}
		if s.W["merge"] > 3 {
			s.W["merge"] = 3
		}
		if rng.Chance(0.25) {
			s.W["kill"] = 1 // the process dies between two operations and the history continues on the recovered database
		}
		return s.genPlain(rng, func() *Config { cfg := c.Cfg; return &cfg })
	}
}

// restartCfgFn returns a function drawing an independent reader configuration for restarts.
func restartCfgFn(c *Case, rng *vrt.Rand, small bool, independent float64) func() *Config {
	return func() *Config {
		if rng.Chance(independent) {
			cfg := genConfig(rng, small)
			return &cfg
		}
		cfg := c.Cfg
		return &cfg
	}
}

func init() {
	// C02: clean restart preserves the mapping, any writer/reader configuration pair, any end offset
	generators["C02"] = func(c *Case, rng *vrt.Rand, tier string) func(r *Runner, i int) *Op {
		c.Arm = "seq"
		small := rng.Chance(0.5)
		c.Cfg = genConfig(rng, small)
		c.Slash = rng.Chance(0.1)
		c.BaseFile = baseFile(rng)
		s := newSwarm(rng, []string{"put", "del", "get", "sync", "merge", "restart", "batch"}, 40)
		s.W["put"] += 5
		s.W["restart"] += 3
		s.ValW[4] += 4 // boundary-aimed lengths: the file ends at every distance from a block boundary
		inner := s.genPlain(rng, restartCfgFn(c, rng, small, 0.7))
		lastRestart := false
		var queued *Op
		sweep := 0
		return func(r *Runner, i int) *Op {
			if queued != nil {
				op := queued
				queued = nil
				lastRestart = true
				return op
			}
			op := inner(r, i)
			if op == nil {
				return nil
			}
			// thorough tier: "all positions at which the log of any data file may end (every offset within a block)" -
			// half of the restarts are preceded by a Put sized so that the active file ends at offset
			// (131*runIndex + n) mod 32768, which walks every residue as the run index grows
			if tier == "thorough" && op.K == "restart" && rng.Chance(0.5) {
				if _, f := r.activeDataFile(); f != nil {
					target := (131*GenIdx + sweep) % blockSz
					sweep++
					k := s.key(rng)
					total := (target - int(f.Size%blockSz)) % blockSz
					if total < 0 {
						total += blockSz
					}
					n := total - len(k) - s.ovh
					for n < 0 {
						n += blockSz - 7
					}
					queued = op
					return &Op{K: "put", Key: k, Val: &Val{Len: n, Tag: s.nextTag()}, Dt: 1000}
				}
			}
			// two restarts in a row, restart right after merge / batch / oversized record
			if !lastRestart && i > 0 && rng.Chance(0.15) {
				op = &Op{K: "restart", Cfg: restartCfgFn(c, rng, small, 0.7)(), Dt: s.dt(rng)}
			}
			lastRestart = op.K == "restart"
			return op
		}
	}
	// C05: batch staging semantics
	generators["C05"] = func(c *Case, rng *vrt.Rand, tier string) func(r *Runner, i int) *Op {
		c.Arm = "seq"
		c.Cfg = genConfig(rng, rng.Chance(0.8))
		s := newSwarm(rng, []string{"put", "del", "batch"}, 30)
		s.W["put"] += 3
		s.W["batch"] += 6
		s.ValW[5] = 0
		prev := (*Op)(nil)
		return func(r *Runner, i int) *Op {
			if prev != nil {
				s.learn(r, prev)
			}
			if i >= s.Steps {
				return nil
			}
			var op *Op
			kinds := []string{"put", "del", "batch", "restart", "merge"}
			switch kinds[rng.Pick([]int{s.W["put"], s.W["del"], s.W["batch"], 1, 1})] {
			case "put":
				k := s.key(rng)
				op = &Op{K: "put", Key: k, Val: s.val(rng, r, len(k))}
			case "del":
				op = &Op{K: "del", Key: s.key(rng)}
			case "restart":
				cfg := c.Cfg
				op = &Op{K: "restart", Cfg: &cfg}
			case "merge":
				op = &Op{K: "merge"}
			default:
				op = &Op{K: "batch", Flag: rng.Chance(0.2)}
				n := rng.Range(1, 16)
				for j := 0; j < n; j++ {
					k := s.key(rng)
					switch x := rng.Intn(10); {
					case x < 4:
						op.Sub = append(op.Sub, Op{K: "bput", Key: k, Val: s.val(rng, r, len(k))})
					case x < 6:
						op.Sub = append(op.Sub, Op{K: "bdel", Key: k})
					default:
						op.Sub = append(op.Sub, Op{K: "bget", Key: k})
					}
					if rng.Chance(0.3) { // read back right after the write
						op.Sub = append(op.Sub, Op{K: "bget", Key: k})
					}
				}
				if rng.Chance(0.02) {
					op.Sub = append(op.Sub, Op{K: "bput", Key: nil, Val: &Val{Len: 1, Tag: s.nextTag()}})
				}
				op.Sub = append(op.Sub, Op{K: "commit"})
				if rng.Chance(0.3) { // use after commit
					for j := 0; j < rng.Range(1, 3); j++ {
						k := s.key(rng)
						switch rng.Intn(4) {
						case 0:
							op.Sub = append(op.Sub, Op{K: "bput", Key: k, Val: s.val(rng, r, len(k))})
						case 1:
							op.Sub = append(op.Sub, Op{K: "bdel", Key: k})
						case 2:
							op.Sub = append(op.Sub, Op{K: "bget", Key: k})
						default:
							op.Sub = append(op.Sub, Op{K: "commit"})
						}
					}
				}
			}
			op.Dt = s.dt(rng)
			prev = op
			return op
		}
	}
	// C10: iterators, ListKeys, Fold
	generators["C10"] = func(c *Case, rng *vrt.Rand, tier string) func(r *Runner, i int) *Op {
		c.Arm = "seq"
		c.Cfg = genConfig(rng, rng.Chance(0.3))
		s := newSwarm(rng, []string{"put", "del", "list", "fold", "iter", "merge"}, 50)
		nkeys := rng.Range(0, 40)
		if rng.Chance(0.3) {
			nkeys = rng.Range(0, 6)
		}
		s.Keys = genKeys(rng, max(nkeys, 1))
		s.ValW = []int{1, 5, 1, 0, 0, 0, 0, 0}
		s.W["iter"] += 6
		s.W["put"] += 4
		s.W["list"] += 1
		s.W["fold"] += 1
		if s.W["merge"] > 1 {
			s.W["merge"] = 1
		}
		s.Steps = rng.Range(5, 60)
		inner := s.genPlain(rng, func() *Config { cfg := c.Cfg; return &cfg })
		return func(r *Runner, i int) *Op {
			// preload most of the key set first
			if i < nkeys && rng.Chance(0.8) {
				k := s.Keys[i%len(s.Keys)]
				return &Op{K: "put", Key: k, Val: s.val(rng, r, len(k)), Dt: 1000}
			}
			return inner(r, i)
		}
	}
	// C13: sync policy
	generators["C13"] = func(c *Case, rng *vrt.Rand, tier string) func(r *Runner, i int) *Op {
		c.Arm = "seq"
		c.Cfg = genConfig(rng, rng.Chance(0.6))
		c.Cfg.Sync = byte(rng.Pick([]int{1, 3, 3}))
		s := newSwarm(rng, []string{"put", "del", "get", "sync", "restart", "batch", "merge"}, 40)
		s.W["put"] += 5
		s.W["sync"] += 1
		s.W["batch"] += 2
		if s.W["merge"] > 1 {
			s.W["merge"] = 1
		}
		if rng.Chance(0.3) {
			// the process dies between two operations (sometimes inside a batch): the policy must hold just as well in
			// the process that recovered an unclosed log - a pre-extended mapped file, a shortened active file
			s.W["kill"] = rng.Range(1, 2)
		}
		return s.genPlain(rng, func() *Config {
			cfg := c.Cfg
			if rng.Chance(0.5) {
				cfg.Sync = byte(rng.Intn(3))
				cfg.BPS = bpsVals[rng.Intn(len(bpsVals))]
			}
			return &cfg
		})
	}
	// C15: hostile caller
	generators["C15"] = func(c *Case, rng *vrt.Rand, tier string) func(r *Runner, i int) *Op {
		c.Arm = "seq"
		c.Hostile = true
		c.Cfg = genConfig(rng, rng.Chance(0.5))
		s := newSwarm(rng, []string{"put", "del", "get", "list", "fold", "batch", "restart", "merge"}, 50)
		s.W["put"] += 5
		s.W["get"] += 3
		s.W["batch"] += 4
		if s.W["restart"] > 1 {
			s.W["restart"] = 1
		}
		if s.W["merge"] > 1 {
			s.W["merge"] = 1
		}
		s.ValW[5] = 0
		return s.genPlain(rng, func() *Config { cfg := c.Cfg; return &cfg })
	}
	// C17: Stat / accounting / size limit
	generators["C17"] = func(c *Case, rng *vrt.Rand, tier string) func(r *Runner, i int) *Op {
		c.Arm = "seq"
		c.Cfg = genConfig(rng, rng.Chance(0.7))
		c.BaseFile = baseFile(rng)
		s := newSwarm(rng, []string{"put", "del", "batch", "merge", "restart", "sync"}, 40)
		s.W["put"] += 5
		s.W["del"] += 2
		s.W["batch"] += 4
		s.W["merge"] += 1
		s.W["restart"] += 1
		if rng.Chance(0.4) {
			s.W["kill"] = rng.Range(1, 3) // the process dies between two operations; Stat is recomputed after the recovery too
		}
		return s.genPlain(rng, restartCfgFn(c, rng, true, 0.5))
	}
	// C18: hint fidelity
	generators["C18"] = func(c *Case, rng *vrt.Rand, tier string) func(r *Runner, i int) *Op {
		c.Arm = "seq"
		c.Cfg = genConfig(rng, rng.Chance(0.8))
		c.BaseFile = baseFile(rng)
		s := newSwarm(rng, []string{"put", "del", "batch", "merge", "restart"}, 40)
		s.Keys = genKeys(rng, rng.Range(1, 12))
		s.W["put"] += 6
		s.W["merge"] += 3
		s.ValW[5] = min(s.ValW[5], 1)
		return s.genPlain(rng, func() *Config { cfg := c.Cfg; return &cfg })
	}
	// C20: backup (single client arm)
	generators["C20"] = func(c *Case, rng *vrt.Rand, tier string) func(r *Runner, i int) *Op {
		c.Arm = "seq"
		c.Cfg = genConfig(rng, rng.Chance(0.6))
		c.Slash = rng.Chance(0.35) // a data directory named with a trailing separator is a legal way to name it
		if rng.Chance(0.6) {
			c.Cfg.IO = 1
		}
		s := newSwarm(rng, []string{"put", "del", "get", "batch", "merge", "restart", "backup"}, 40)
		s.W["put"] += 5
		s.W["backup"] += 3
		inner := s.genPlain(rng, func() *Config { cfg := c.Cfg; return &cfg })
		afterBackup := false
		return func(r *Runner, i int) *Op {
			op := inner(r, i)
			if op == nil {
				return nil
			}
			if afterBackup && rng.Chance(0.6) {
				// a large Put right after a backup (the mmap path must extend the shrunk file again)
				k := s.key(rng)
				op = &Op{K: "put", Key: k, Val: &Val{Len: rng.Range(2000, 70000), Tag: s.nextTag()}, Dt: 1000}
			}
			afterBackup = op.K == "backup"
			return op
		}
	}
	// C06: merge (single client arm)
	generators["C06"] = func(c *Case, rng *vrt.Rand, tier string) func(r *Runner, i int) *Op {
		c.Arm = "seq"
		c.Cfg = genConfig(rng, rng.Chance(0.8))
		c.Slash = rng.Chance(0.1)
		c.BaseFile = baseFile(rng)
		s := newSwarm(rng, []string{"put", "del", "batch", "merge", "restart", "get"}, 45)
		s.W["put"] += 6
		s.W["del"] += 1
		s.W["merge"] += 3
		s.W["restart"] += 3
		// fault arm: an I/O error inside the merge side directory, or too little free space
		switch x := rng.Intn(20); {
		case x < 3:
			c.FaultAt = rng.Range(1, 14)
		case x == 3:
			c.Free = int64(rng.Range(1, 400))
		}
		inner := s.genPlain(rng, restartCfgFn(c, rng, true, 0.5))
		lastMerge := false
		return func(r *Runner, i int) *Op {
			op := inner(r, i)
			if op == nil {
				return nil
			}
			if lastMerge && rng.Chance(0.5) {
				op = &Op{K: "restart", Cfg: restartCfgFn(c, rng, true, 0.5)(), Dt: s.dt(rng)}
			}
			lastMerge = op.K == "merge"
			return op
		}
	}
}

func crashBudget(c *Case, rng *vrt.Rand, tier string, power bool) {
	// mmap images cost several times more (512 MiB sparse files mapped and unmapped per Open): a third of the runs
	if c.Cfg.IO == 1 && rng.Chance(0.5) {
		c.Cfg.IO = 0
	}
	if !power {
		return
	}
	if tier == "thorough" {
		c.PowerPct = 100
		c.Cuts = rng.Range(2, 6)
	} else {
		c.PowerPct = 40
		c.Cuts = rng.Range(1, 4)
	}
}

func init() {
	// C03: crash recovery exposes a prefix (plain workload: no batches, no merges)
	generators["C03"] = func(c *Case, rng *vrt.Rand, tier string) func(r *Runner, i int) *Op {
		c.Arm = "crash"
		c.Cfg = genConfig(rng, rng.Chance(0.6))
		c.BaseFile = baseFile(rng)
		crashBudget(c, rng, tier, true)
		// "for all workloads": a share of the runs also merges (power loss inside Merge and inside the adopting
		// Open is reached only here - C07 covers process crashes there); batches stay with C04
		kinds := []string{"put", "del", "sync", "restart", "get"}
		withMerge := rng.Chance(0.3)
		if withMerge {
			kinds = append(kinds, "merge")
		}
		// a quarter of the runs also commits batches (a batch is one mutation of the prefix oracle): unsynced batch
		// bytes followed by a rotation and a power loss are a C03 matter as much as a C04 one (seeded change S23)
		withBatch := rng.Chance(0.25)
		if withBatch {
			kinds = append(kinds, "batch")
		}
		s := newSwarm(rng, kinds, 25)
		s.W["put"] += 6
		s.W["del"] += 1
		if s.W["restart"] > 2 {
			s.W["restart"] = 2
		}
		if withMerge {
			s.W["merge"] = rng.Range(1, 2)
			s.W["restart"] = 2
		}
		if withBatch {
			s.W["batch"] = rng.Range(2, 5)
		}
		s.ValW[5] = min(s.ValW[5], 1)
		if s.Steps > 25 {
			s.Steps = 25
		}
		return s.genPlain(rng, restartCfgFn(c, rng, true, 0.3))
	}
	// C04: batches under crashes
	generators["C04"] = func(c *Case, rng *vrt.Rand, tier string) func(r *Runner, i int) *Op {
		c.Arm = "crash"
		c.Cfg = genConfig(rng, rng.Chance(0.7))
		crashBudget(c, rng, tier, true)
		s := newSwarm(rng, []string{"put", "del", "batch", "restart", "merge", "sync"}, 16)
		s.W["batch"] += 8
		s.W["put"] += 2
		if s.W["merge"] > 1 {
			s.W["merge"] = 1
		}
		if s.W["restart"] > 2 {
			s.W["restart"] = 2
		}
		s.ValW[5] = 0
		if s.Steps > 16 {
			s.Steps = 16
		}
		plain := s.genPlain(rng, func() *Config { cfg := c.Cfg; return &cfg })
		return func(r *Runner, i int) *Op {
			op := plain(r, i)
			if op != nil && op.K == "batch" {
				// batches of 1..30 staged operations without reads, some exceeding DataFileSize
				nb := s.genBatch(rng, r, rng.Pick([]int{0, 4, 3, 2, 1, 1})*5+1, false)
				nb.Dt = op.Dt
				return nb
			}
			return op
		}
	}
	// C07: crash during merge or adoption
	generators["C07"] = func(c *Case, rng *vrt.Rand, tier string) func(r *Runner, i int) *Op {
		c.Arm = "crash"
		c.Cfg = genConfig(rng, rng.Chance(0.8))
		c.BaseFile = baseFile(rng)
		crashBudget(c, rng, tier, false)
		s := newSwarm(rng, []string{"put", "del", "batch"}, 14)
		s.W["put"] += 5
		s.ValW[5] = 0
		s.ValW[6] = min(s.ValW[6], 1)
		n := rng.Range(2, 12)
		plain := s.genPlain(rng, func() *Config { cfg := c.Cfg; return &cfg })
		phase := 0
		return func(r *Runner, i int) *Op {
			if i < n {
				s.Steps = n + 10
				if op := plain(r, i); op != nil {
					return op
				}
			}
			phase++
			switch phase {
			case 1:
				return &Op{K: "merge", Dt: 1000000}
			case 2:
				if rng.Chance(0.4) {
					k := s.key(rng)
					return &Op{K: "put", Key: k, Val: s.val(rng, r, len(k)), Dt: 2000000}
				}
				return &Op{K: "del", Key: s.key(rng), Dt: 2000000}
			case 3:
				cfg := c.Cfg
				if rng.Chance(0.3) {
					cfg = genConfig(rng, true)
				}
				return &Op{K: "restart", Cfg: &cfg, Dt: 1000000}
			case 4:
				if rng.Chance(0.5) {
					return &Op{K: "merge", Dt: 1000000}
				}
				return nil
			case 5:
				cfg := c.Cfg
				return &Op{K: "restart", Cfg: &cfg, Dt: 1000000}
			}
			return nil
		}
	}
}

func init() {
	// C12: stored-byte damage on a small database
	generators["C12"] = func(c *Case, rng *vrt.Rand, tier string) func(r *Runner, i int) *Op {
		c.Arm = "damage"
		c.Cfg = genConfig(rng, true)
		c.Cfg.IO = byte(rng.Pick([]int{4, 1}))
		if c.Cfg.FileSize < 200 {
			c.Cfg.FileSize = 200
		}
		c.Knobs = map[string]int{"flipall": 256, "flips": 120, "overwrites": 30, "truncspan": 120}
		if tier == "thorough" {
			c.Knobs = map[string]int{"flipall": 1024, "flips": 300, "overwrites": 80, "truncspan": 250}
		}
		s := newSwarm(rng, []string{"put", "del", "batch"}, 10)
		s.W["put"] += 5
		s.ValW = []int{1, 6, 2, 0, 0, 0, 0, 0}
		if rng.Chance(0.25) {
			s.ValW[4] = 2 // a record near / across a block boundary
		}
		if rng.Chance(0.1) {
			s.ValW[5] = 1 // a multi-chunk record
		}
		s.Steps = rng.Range(2, 9)
		plain := s.genPlain(rng, func() *Config { cfg := c.Cfg; return &cfg })
		tail := 0
		wantMerge := rng.Chance(0.3)
		wantRestart := rng.Chance(0.3)
		// a third of the runs begin with "twins": two records of the same total length whose keys stand in a prefix
		// relation (k with an L-byte value, k+x with L-1 bytes) or differ in one byte only - what a transplant needs
		// to tell a complete key comparison from a partial one (seeded change S76)
		var twins []*Op
		if rng.Chance(0.35) {
			k := s.Keys[rng.Intn(len(s.Keys))]
			if len(k) < 200 {
				l := rng.Range(2, 40)
				var k2 []byte
				l2 := l
				switch rng.Intn(3) {
				case 0:
					k2, l2 = append(append([]byte{}, k...), []byte{'0', 0x01, 0xff}[rng.Intn(3)]), l-1
				case 1:
					k2 = append([]byte{}, k...)
					k2[len(k2)-1] ^= 0x01 // same length, last byte differs
				default:
					k2 = append([]byte{}, k...)
					k2[0] ^= 0x01 // same length, first byte differs
				}
				if len(k2) > 0 && k2[len(k2)-1] != 0 {
					s.Keys = append(s.Keys, k2)
					s.tag += 2
					twins = []*Op{
						{K: "put", Key: k, Val: &Val{Len: l, Tag: s.tag - 1}, Dt: 1000},
						{K: "put", Key: k2, Val: &Val{Len: l2, Tag: s.tag}, Dt: 1000},
					}
				}
			}
		}
		return func(r *Runner, i int) *Op {
			if i < len(twins) {
				return twins[i]
			}
			if op := plain(r, i-len(twins)); op != nil {
				return op
			}
			tail++
			switch {
			case tail == 1 && wantMerge:
				return &Op{K: "merge", Dt: 1000000} // finished but unadopted: the next Open reads the hint file
			case tail == 2 && wantMerge && wantRestart:
				cfg := c.Cfg
				return &Op{K: "restart", Cfg: &cfg, Dt: 1000000} // adopted: hinted files are not scanned at Open
			case tail == 3 && wantMerge && wantRestart:
				k := s.key(rng)
				return &Op{K: "put", Key: k, Val: s.val(rng, r, len(k)), Dt: 1000}
			}
			return nil
		}
	}
}

// ---- concurrent arms: programs are generated up front (they cannot adapt to a state that depends on the schedule)

func genPolicy(rng *vrt.Rand) vrt.Policy {
	p := vrt.Policy{Seed: rng.Uint64()}
	switch rng.Intn(5) {
	case 0:
		p.Mode = "random"
	case 1, 2:
		p.Mode = "sticky"
		p.Sticky = []float64{0.5, 0.8, 0.9, 0.97}[rng.Intn(4)]
	default:
		p.Mode = "pct"
		p.Depth = rng.Range(1, 4)
		p.Horizon = rng.Range(20, 400)
	}
	return p
}

func smallVal(rng *vrt.Rand, tag *uint32) *Val {
	*tag++
	n := rng.Range(1, 40)
	if rng.Chance(0.1) {
		n = rng.Range(100, 700)
	}
	if rng.Chance(0.03) {
		n = 0
	}
	return &Val{Len: n, Tag: *tag}
}

func concConfig(rng *vrt.Rand) Config {
	c := genConfig(rng, true)
	c.FileSize = []int64{200, 512, 1024, 4096, 1 << 20}[rng.Intn(5)]
	if c.Shards > 16 {
		c.Shards = 16
	}
	if rng.Chance(0.8) {
		c.IO = 0
	}
	return c
}

func genSetup(rng *vrt.Rand, keys [][]byte, tag *uint32) []Op {
	var ops []Op
	for _, k := range keys {
		if rng.Chance(0.6) {
			ops = append(ops, Op{K: "put", Key: k, Val: smallVal(rng, tag)})
		}
	}
	if rng.Chance(0.2) {
		ops = append(ops, Op{K: "merge"})
	}
	return ops
}

func init() {
	// C08: linearizability of Put/Get/Delete and live == restart
	generators["C08"] = func(c *Case, rng *vrt.Rand, tier string) func(r *Runner, i int) *Op {
		c.Arm = "conc"
		c.Cfg = concConfig(rng)
		c.Sched = genPolicy(rng)
		var tag uint32
		keys := genKeys(rng, rng.Range(1, 3))
		c.Setup = genSetup(rng, keys, &tag)
		n := rng.Pick([]int{0, 0, 6, 4, 3, 1, 1, 0, 1})
		if n < 2 {
			n = 2
		}
		if rng.Chance(0.04) {
			n = rng.Range(9, 16)
		}
		c.Clients = make([][]Op, n)
		for ci := range c.Clients {
			m := rng.Range(2, 8)
			for j := 0; j < m; j++ {
				k := keys[rng.Intn(len(keys))]
				switch x := rng.Intn(10); {
				case x < 5:
					c.Clients[ci] = append(c.Clients[ci], Op{K: "put", Key: k, Val: smallVal(rng, &tag)})
				case x < 7:
					c.Clients[ci] = append(c.Clients[ci], Op{K: "del", Key: k})
				default:
					c.Clients[ci] = append(c.Clients[ci], Op{K: "get", Key: k})
				}
			}
		}
		if rng.Chance(0.25) {
			c.Clients = append(c.Clients, []Op{{K: "merge"}})
		}
		return nil
	}
	// C09: every public call, concurrently (built with the race detector)
	generators["C09"] = func(c *Case, rng *vrt.Rand, tier string) func(r *Runner, i int) *Op {
		c.Arm = "conc"
		c.Cfg = concConfig(rng)
		c.Cfg.Index = int8(rng.Pick([]int{0, 3, 1, 1})) // B-tree (clone path) most often
		c.Sched = genPolicy(rng)
		var tag uint32
		keys := genKeys(rng, rng.Range(1, 5))
		c.Setup = genSetup(rng, keys, &tag)
		n := rng.Range(2, 5)
		if rng.Chance(0.05) {
			n = rng.Range(6, 16)
		}
		kinds := []string{"put", "get", "del", "list", "fold", "iter", "stat", "sync", "batch", "merge"}
		w := make([]int, len(kinds))
		for i := range w {
			if rng.Chance(0.75) {
				w[i] = rng.Range(1, 6)
			}
		}
		w[0] += 3
		c.Clients = make([][]Op, n)
		for ci := range c.Clients {
			m := rng.Range(2, 7)
			for j := 0; j < m; j++ {
				k := keys[rng.Intn(len(keys))]
				kind := kinds[rng.Pick(w)]
				op := Op{K: kind}
				switch kind {
				case "put":
					op.Key, op.Val = k, smallVal(rng, &tag)
				case "get", "del":
					op.Key = k
				case "iter":
					op.Flag = rng.Chance(0.5)
					op.N = rng.Intn(2)
				case "batch":
					op.Flag = rng.Chance(0.2)
					for b := 0; b < rng.Range(1, 4); b++ {
						bk := keys[rng.Intn(len(keys))]
						switch rng.Intn(3) {
						case 0:
							op.Sub = append(op.Sub, Op{K: "bdel", Key: bk})
						case 1:
							op.Sub = append(op.Sub, Op{K: "bget", Key: bk})
						default:
							op.Sub = append(op.Sub, Op{K: "bput", Key: bk, Val: smallVal(rng, &tag)})
						}
					}
				}
				c.Clients[ci] = append(c.Clients[ci], op)
			}
		}
		return nil
	}
}

// partitionedWriters generates nw writer programs with one writer per key.
func partitionedWriters(rng *vrt.Rand, keys [][]byte, nw int, tag *uint32, maxOps int) [][]Op {
	out := make([][]Op, nw)
	for ki, k := range keys {
		w := ki % nw
		m := rng.Range(1, maxOps)
		for j := 0; j < m; j++ {
			if rng.Chance(0.7) {
				out[w] = append(out[w], Op{K: "put", Key: k, Val: smallVal(rng, tag)})
			} else {
				out[w] = append(out[w], Op{K: "del", Key: k})
			}
			if rng.Chance(0.2) {
				out[w] = append(out[w], Op{K: "get", Key: k})
			}
		}
	}
	for w := range out {
		rng2 := vrt.NewRand(rng.Uint64())
		p := rng2.Perm(len(out[w]))
		// keep per-key order: shuffle only across keys by a stable merge
		_ = p
	}
	return out
}

// withConcArm wraps a sequential generator: a share of the runs uses the concurrent arm instead.
func withConcArm(prop string, share float64, conc func(c *Case, rng *vrt.Rand, tier string)) {
	seq := generators[prop]
	generators[prop] = func(c *Case, rng *vrt.Rand, tier string) func(r *Runner, i int) *Op {
		if rng.Chance(share) {
			c.Arm = "conc"
			c.Sched = genPolicy(rng)
			conc(c, rng, tier)
			return nil
		}
		return seq(c, rng, tier)
	}
}

func init() {
	// C06(b): a merger concurrent with writers, one writer per key
	withConcArm("C06", 0.35, func(c *Case, rng *vrt.Rand, tier string) {
		c.Cfg = concConfig(rng)
		if rng.Chance(0.4) {
			// the merge races one kind of writer on shared keys - batches (some spilling before Commit), puts,
			// deletes or a mix: live == restart after the adoption and after the restart that follows
			mergeRace(c, rng)
			return
		}
		var tag uint32
		keys := genKeys(rng, rng.Range(2, 6))
		c.Setup = nil
		for _, k := range keys { // a history worth merging
			for j := 0; j < rng.Range(1, 3); j++ {
				c.Setup = append(c.Setup, Op{K: "put", Key: k, Val: smallVal(rng, &tag)})
			}
			if rng.Chance(0.2) {
				c.Setup = append(c.Setup, Op{K: "del", Key: k})
			}
		}
		c.Clients = partitionedWriters(rng, keys, rng.Range(1, 3), &tag, 4)
		c.Clients = append(c.Clients, []Op{{K: "merge"}})
		if rng.Chance(0.2) {
			c.Clients = append(c.Clients, []Op{{K: "merge"}})
		}
	})
	// C05(b): one client holds a batch open, the others use the database
	withConcArm("C05", 0.25, func(c *Case, rng *vrt.Rand, tier string) {
		c.Cfg = concConfig(rng)
		var tag uint32
		keys := genKeys(rng, rng.Range(2, 5))
		c.Setup = genSetup(rng, keys, &tag)
		nw := rng.Range(1, 2)
		c.Clients = partitionedWriters(rng, keys[1:], nw, &tag, 3)
		// the batch holder owns keys[0] and reads everybody's keys
		var holder []Op
		for b := 0; b < rng.Range(1, 2); b++ {
			op := Op{K: "batch"}
			for j := 0; j < rng.Range(2, 8); j++ {
				k := keys[rng.Intn(len(keys))]
				switch rng.Intn(5) {
				case 0:
					op.Sub = append(op.Sub, Op{K: "bput", Key: keys[0], Val: smallVal(rng, &tag)})
				case 1:
					op.Sub = append(op.Sub, Op{K: "yield"})
				default:
					op.Sub = append(op.Sub, Op{K: "bget", Key: k})
				}
			}
			holder = append(holder, op)
		}
		c.Clients = append(c.Clients, holder)
		if rng.Chance(0.2) {
			c.Clients = append(c.Clients, []Op{{K: "merge"}}) // a merge next to the open batch
		}
	})
	// C10(b): an iterator session concurrent with writers
	withConcArm("C10", 0.3, func(c *Case, rng *vrt.Rand, tier string) {
		c.Cfg = concConfig(rng)
		c.Cfg.Index = int8(rng.Range(1, 3))
		var tag uint32
		keys := genKeys(rng, rng.Range(2, 10))
		c.Setup = genSetup(rng, keys, &tag)
		c.Clients = partitionedWriters(rng, keys, rng.Range(1, 2), &tag, 3)
		var sess []Op
		for s := 0; s < rng.Range(1, 3); s++ {
			op := Op{K: "iter", Flag: rng.Chance(0.5), N: rng.Range(0, 2)}
			if rng.Chance(0.3) {
				k := keys[rng.Intn(len(keys))]
				op.Key = Bytes(k[:rng.Range(1, len(k))])
			}
			sess = append(sess, op)
			if rng.Chance(0.4) {
				sess = append(sess, Op{K: "fold"}) // Fold next to the writers: one snapshot, too
			}
		}
		c.Clients = append(c.Clients, sess)
		if rng.Chance(0.2) {
			c.Clients = append(c.Clients, []Op{{K: "merge"}}) // a merge next to the iterator session
		}
	})
	// C20(b): a backup concurrent with writers
	withConcArm("C20", 0.3, func(c *Case, rng *vrt.Rand, tier string) {
		c.Cfg = concConfig(rng)
		c.Cfg.IO = byte(rng.Intn(2))
		var tag uint32
		keys := genKeys(rng, rng.Range(2, 6))
		c.Setup = genSetup(rng, keys, &tag)
		c.Clients = partitionedWriters(rng, keys, rng.Range(1, 3), &tag, 4)
		var bk []Op
		for b := 0; b < rng.Range(1, 2); b++ {
			bk = append(bk, Op{K: "backup", N: b + 1})
		}
		c.Clients = append(c.Clients, bk)
		if rng.Chance(0.2) {
			c.Clients = append(c.Clients, []Op{{K: "merge"}}) // a merge next to the backup
		}
	})
}

// withCCrashArm wraps a crash-arm generator: a share of the runs crashes a database that several clients were
// using at the same time (arm "ccrash").
func withCCrashArm(prop string, share float64, conc func(c *Case, rng *vrt.Rand, tier string)) {
	seq := generators[prop]
	generators[prop] = func(c *Case, rng *vrt.Rand, tier string) func(r *Runner, i int) *Op {
		if rng.Chance(share) {
			c.Arm = "ccrash"
			c.Sched = genPolicy(rng)
			c.Cfg = concConfig(rng)
			conc(c, rng, tier)
			c.Knobs = map[string]int{"ccpos": 100}
			if tier == "thorough" {
				c.Knobs["ccpos"] = 400
			}
			return nil
		}
		return seq(c, rng, tier)
	}
}

// ccPrograms generates client programs for the ccrash arm from weights over put/del/get/sync/batch.
func ccPrograms(rng *vrt.Rand, keys [][]byte, tag *uint32, clients int, w map[string]int, maxOps int) [][]Op {
	kinds := []string{"put", "del", "get", "sync", "batch", "yield"}
	ws := make([]int, len(kinds))
	for i, k := range kinds {
		ws[i] = w[k]
	}
	// swarm: every run drops a random subset of the operation kinds (a bug that any plain Put masks - seeded change
	// S58 - needs runs in which only batches write)
	for tries := 0; tries < 8; tries++ {
		cand := append([]int(nil), ws...)
		for i := range cand {
			if rng.Chance(0.3) && w[kinds[i]+"!"] == 0 { // "kind!" pins a kind
				cand[i] = 0
			}
		}
		if cand[0]+cand[1]+cand[4] > 0 {
			ws = cand
			break
		}
	}
	out := make([][]Op, clients)
	total := 0
	for ci := range out {
		m := rng.Range(1, maxOps)
		for j := 0; j < m && total < 22; j++ {
			k := keys[rng.Intn(len(keys))]
			kind := kinds[rng.Pick(ws)]
			op := Op{K: kind}
			switch kind {
			case "put":
				op.Key, op.Val = k, smallVal(rng, tag)
				total++
			case "del":
				op.Key = k
				total++
			case "get":
				op.Key = k
			case "batch":
				op.Flag = rng.Chance(0.3)
				nsub := rng.Range(1, 5)
				if rng.Chance(0.15) {
					nsub = rng.Range(6, 12)
				}
				for b := 0; b < nsub; b++ {
					bk := keys[rng.Intn(len(keys))]
					switch x := rng.Intn(10); {
					case x < 6:
						op.Sub = append(op.Sub, Op{K: "bput", Key: bk, Val: smallVal(rng, tag)})
					case x < 8:
						op.Sub = append(op.Sub, Op{K: "bdel", Key: bk})
					case x < 9:
						op.Sub = append(op.Sub, Op{K: "bget", Key: bk})
					default:
						op.Sub = append(op.Sub, Op{K: "yield"})
					}
				}
				total++
			}
			out[ci] = append(out[ci], op)
		}
	}
	return out
}

func init() {
	// C03(b): power loss and process crashes under concurrent writers
	withCCrashArm("C03", 0.3, func(c *Case, rng *vrt.Rand, tier string) {
		crashBudget(c, rng, tier, true)
		if rng.Chance(0.35) {
			mergeRace(c, rng)
			return
		}
		var tag uint32
		keys := genKeys(rng, rng.Range(1, 4))
		c.Setup = genSetup(rng, keys, &tag)
		w := map[string]int{"put": 6, "del": 2, "get": 1, "sync": 1, "yield": 1}
		if rng.Chance(0.4) {
			w["batch"] = rng.Range(2, 6)
		}
		c.Clients = ccPrograms(rng, keys, &tag, rng.Range(2, 4), w, 6)
		if rng.Chance(0.35) {
			// a merge next to the writers: whatever it relies on must be durable before it declares itself finished
			// (engine fix 0a061cf, seeded change S58)
			c.Clients = append(c.Clients, []Op{{K: "yield"}, {K: "merge"}})
		}
	})
	// C04(b): batches committed by several clients, crashed anywhere
	withCCrashArm("C04", 0.3, func(c *Case, rng *vrt.Rand, tier string) {
		crashBudget(c, rng, tier, true)
		if rng.Chance(0.5) {
			mergeRace(c, rng, 4, 0, 0, 1)
			return
		}
		var tag uint32
		keys := genKeys(rng, rng.Range(2, 5))
		c.Setup = genSetup(rng, keys, &tag)
		w := map[string]int{"put": 2, "del": 1, "sync": 1, "batch": 6, "batch!": 1, "yield": 1}
		c.Clients = ccPrograms(rng, keys, &tag, rng.Range(2, 3), w, 5)
		if rng.Chance(0.3) {
			c.Clients = append(c.Clients, []Op{{K: "yield"}, {K: "merge"}})
		}
	})
	// C07(b): the process dies while Merge runs next to writers
	withCCrashArm("C07", 0.5, func(c *Case, rng *vrt.Rand, tier string) {
		crashBudget(c, rng, tier, false)
		if rng.Chance(0.6) {
			mergeRace(c, rng, 3, 1, 1, 2)
			return
		}
		var tag uint32
		keys := genKeys(rng, rng.Range(2, 5))
		c.Setup = nil
		for _, k := range keys { // a history worth merging
			for j := 0; j < rng.Range(1, 3); j++ {
				c.Setup = append(c.Setup, Op{K: "put", Key: k, Val: smallVal(rng, &tag)})
			}
			if rng.Chance(0.2) {
				c.Setup = append(c.Setup, Op{K: "del", Key: k})
			}
		}
		w := map[string]int{"put": 5, "del": 2, "get": 1, "yield": 2}
		if rng.Chance(0.3) {
			w["batch"] = 2
		}
		c.Clients = ccPrograms(rng, keys, &tag, rng.Range(1, 3), w, 5)
		c.Clients = append(c.Clients, []Op{{K: "merge"}})
	})
}

func init() {
	// C13(b): the sync policy under concurrent callers (the base run of the ccrash arm, judged on its journal)
	withCCrashArm("C13", 0.2, func(c *Case, rng *vrt.Rand, tier string) {
		c.Cfg.IO = 0
		c.Cfg.Sync = byte(rng.Pick([]int{1, 3, 3}))
		c.Cfg.BPS = []uint{1, 30, 64, 200, 512, 4096}[rng.Intn(6)]
		var tag uint32
		keys := genKeys(rng, rng.Range(1, 4))
		c.Setup = genSetup(rng, keys, &tag)
		w := map[string]int{"put": 6, "del": 2, "get": 1, "sync": 2, "batch": 3, "yield": 1}
		c.Clients = ccPrograms(rng, keys, &tag, rng.Range(2, 4), w, 6)
		for ci := range c.Clients {
			for j := range c.Clients[ci] {
				if c.Clients[ci][j].K == "batch" {
					c.Clients[ci][j].Flag = rng.Chance(0.6)
				}
			}
		}
		if rng.Chance(0.15) {
			c.Clients = append(c.Clients, []Op{{K: "yield"}, {K: "merge"}})
		}
	})
}

func init() {
	// C17(b): the counters after concurrent use (puts, deletes, batches and a merge racing each other)
	withConcArm("C17", 0.15, func(c *Case, rng *vrt.Rand, tier string) {
		c.Cfg = concConfig(rng)
		var tag uint32
		keys := genKeys(rng, rng.Range(1, 4))
		c.Setup = genSetup(rng, keys, &tag)
		w := map[string]int{"put": 6, "del": 3, "get": 1, "batch": 2, "yield": 1}
		c.Clients = ccPrograms(rng, keys, &tag, rng.Range(2, 4), w, 6)
		if rng.Chance(0.25) {
			c.Clients = append(c.Clients, []Op{{K: "merge"}})
		}
	})
}

// mergeRace generates the programs of a run in which a Merge races one kind of writer: only batches (some of them
// larger than the file-size limit, so that pieces are flushed and indexed before Commit), only Puts, only Deletes,
// or a mix - after a setup that wrote every key, so that the merge has records to skip or keep (seeded changes
// S58-S60: what a concurrent merge relies on must be sealed and durable before it declares itself finished).
func mergeRace(c *Case, rng *vrt.Rand, modeW ...int) {
	var tag uint32
	keys := genKeys(rng, rng.Range(2, 5))
	c.Cfg.FileSize = []int64{200, 512, 1024, 1 << 20}[rng.Intn(4)]
	c.Setup = nil
	for _, k := range keys {
		for j := 0; j < rng.Range(1, 2); j++ {
			c.Setup = append(c.Setup, Op{K: "put", Key: k, Val: smallVal(rng, &tag)})
		}
	}
	mode := rng.Intn(4)
	if len(modeW) == 4 {
		mode = rng.Pick(modeW)
	}
	fat := func() *Val {
		tag++
		return &Val{Len: rng.Range(60, 300), Tag: tag}
	}
	nw := rng.Range(1, 2)
	c.Clients = make([][]Op, nw)
	for ci := range c.Clients {
		for y := 0; y < rng.Intn(3); y++ {
			c.Clients[ci] = append(c.Clients[ci], Op{K: "yield"})
		}
		for j := 0; j < rng.Range(1, 3); j++ {
			k := keys[rng.Intn(len(keys))]
			kind := mode
			if mode == 3 {
				kind = rng.Intn(3)
			}
			switch kind {
			case 0:
				op := Op{K: "batch", Flag: rng.Chance(0.2)}
				big := rng.Chance(0.5)
				if big && c.Cfg.FileSize > 512 {
					c.Cfg.FileSize = []int64{200, 512}[rng.Intn(2)] // small enough for the batch to flush a piece early
				}
				for b := 0; b < rng.Range(1, 6); b++ {
					bk := keys[rng.Intn(len(keys))]
					switch x := rng.Intn(10); {
					case x < 7:
						v := smallVal(rng, &tag)
						if big {
							v = fat()
						}
						op.Sub = append(op.Sub, Op{K: "bput", Key: bk, Val: v})
					case x < 9:
						op.Sub = append(op.Sub, Op{K: "bdel", Key: bk})
					default:
						op.Sub = append(op.Sub, Op{K: "yield"})
					}
					if big && rng.Chance(0.5) {
						op.Sub = append(op.Sub, Op{K: "yield"}) // keep the batch open while the merge advances
					}
				}
				c.Clients[ci] = append(c.Clients[ci], op)
			case 1:
				c.Clients[ci] = append(c.Clients[ci], Op{K: "put", Key: k, Val: smallVal(rng, &tag)})
			default:
				c.Clients[ci] = append(c.Clients[ci], Op{K: "del", Key: k})
			}
		}
	}
	var m []Op
	for y := 0; y < rng.Intn(3); y++ {
		m = append(m, Op{K: "yield"})
	}
	c.Clients = append(c.Clients, append(m, Op{K: "merge"}))
}

func init() {
	// C18(b): the hint file of a merge that ran next to writers
	withConcArm("C18", 0.2, func(c *Case, rng *vrt.Rand, tier string) {
		c.Cfg = concConfig(rng)
		mergeRace(c, rng)
		c.Cfg.IO = byte(rng.Pick([]int{3, 1}))
	})
}

// withBulk lets a share of a property's sequential runs begin with a bulk load of 40..400 keys.
func withBulk(prop string, share float64) {
	gen := generators[prop]
	generators[prop] = func(c *Case, rng *vrt.Rand, tier string) func(r *Runner, i int) *Op {
		bulkShare = 0
		if rng.Chance(share) {
			bulkShare = rng.Range(40, 400)
		}
		defer func() { bulkShare = 0 }()
		g := gen(c, rng, tier)
		if bulkShare > 0 && c.Cfg.IO == 1 && c.Cfg.FileSize < 2048 {
			c.Cfg.FileSize = 2048 // hundreds of one-record mapped files make a run take minutes
		}
		return g
	}
}

// bulkShare is read by newSwarm while a generator wrapped by withBulk runs (generators run one at a time).
var bulkShare int

func init() {
	for _, p := range []string{"C01", "C02", "C06", "C10", "C14", "C17", "C18", "C20"} {
		withBulk(p, 0.04)
	}
}

// withZeroTail lets a share of a property's sequential runs use values that end in zero bytes (little-endian
// counters, zero-padded fields). Such runs use standard I/O for every Open: the model of an open memory-mapped file is
// recovered by diffing against zeros and cannot see a trailing zero (seeded change S93: a copy routine that trims them).
func withZeroTail(prop string, share float64) {
	gen := generators[prop]
	generators[prop] = func(c *Case, rng *vrt.Rand, tier string) func(r *Runner, i int) *Op {
		zeroTailRun = rng.Chance(share)
		defer func() { zeroTailRun = false }()
		g := gen(c, rng, tier)
		if zeroTailRun {
			c.ZeroTail = true // whatever arm the generator chose: every Open of the run is forced to standard I/O
			c.Cfg.IO = 0
		}
		return g
	}
}

var zeroTailRun bool

func init() {
	for _, p := range []string{"C01", "C02", "C03", "C04", "C06", "C10", "C17", "C18", "C20"} {
		withZeroTail(p, 0.06)
	}
}

// withKill lets a share of a property's sequential runs contain kill steps: the process dies between two operations
// (half of the time inside a batch), is reopened, and the history - and the property's own oracle - carries on.
func withKill(prop string, share float64) {
	gen := generators[prop]
	generators[prop] = func(c *Case, rng *vrt.Rand, tier string) func(r *Runner, i int) *Op {
		killRun = rng.Chance(share)
		defer func() { killRun = false }()
		g := gen(c, rng, tier)
		if killRun && prop == "C20" {
			// After recovering a mapped database that was never closed, the older files keep their 512 MiB
			// pre-extension (Backup resets them to that size, not to their data) and Backup copies them in full through
			// memory: the copy is right - checked by hand with the memory guard lifted - but a single run then needs
			// gigabytes of RAM and tmpfs. No listed property is about that; such runs use standard I/O.
			c.StdIO = true
			c.Cfg.IO = 0
		}
		return g
	}
}

var killRun bool

func init() {
	for _, p := range []string{"C05", "C06", "C10", "C14", "C15", "C18", "C20"} {
		withKill(p, 0.2)
	}
}
