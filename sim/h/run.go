package h

import (
	"bytes"
	"encoding/json"
	"errors"
	"fmt"
	"os"
	"path/filepath"
	"regexp"
	"runtime/debug"
	"sort"
	"strings"
	"time"

	kv "github.com/XiXi-2024/xixi-kv"
	"github.com/XiXi-2024/xixi-kv/vsim/vclock"
	"github.com/XiXi-2024/xixi-kv/vsim/vos"
	"github.com/XiXi-2024/xixi-kv/vsim/vrt"
	"github.com/XiXi-2024/xixi-kv/vsim/vsync"
)

// ScratchBase is where run roots are created (tmpfs).
var ScratchBase = func() string {
	// the driver hands every worker a directory inside its own scratch tree, so that whatever a dying worker
	// leaves behind disappears with the check
	if d := os.Getenv("VSIM_SCRATCH"); d != "" {
		if err := os.MkdirAll(d, 0o755); err == nil {
			return d
		}
	}
	if st, err := os.Stat("/dev/shm"); err == nil && st.IsDir() {
		return "/dev/shm"
	}
	return os.TempDir()
}()

var runSerial int

// State is one value of the reference map.
type State map[string][]byte

func (s State) clone() State {
	c := make(State, len(s))
	for k, v := range s {
		c[k] = v
	}
	return c
}

func (s State) hash() uint64 {
	keys := make([]string, 0, len(s))
	for k := range s {
		keys = append(keys, k)
	}
	sort.Strings(keys)
	h := uint64(1469598103934665603)
	for _, k := range keys {
		h = vrt.Mix(h, vrt.HashString(k), vrt.HashString(string(s[k])))
	}
	return h
}

// Runner executes one case.
type Runner struct {
	C         *Case
	Root      string
	FS        *vos.FS
	DB        *kv.DB
	Cfg       Config
	M         State
	Ever      map[string]bool
	Written   map[string]map[string]bool // every value ever handed to Put / Batch.Put for a key (even if superseded inside its batch)
	States    []State                    // States[j] = model after j acknowledged mutations
	MutOp     []int                      // MutOp[j] = index of the operation that was the j-th mutation (MutOp[0] = -1)
	V         *Violation
	KnownHits []KnownHit
	Aborted   string
	Infra     string
	Cnt       map[string]int64
	Traces    []uint64
	opClock   []int64 // simulated time at which operation i began
	StateHs   []uint64
	step      int
	judging   bool // the step in progress is one the property judges
	restarts  int
	Executed  []Op
	gen       func(r *Runner, i int) *Op // adaptive generator (nil when replaying a recorded case)
	rng       *vrt.Rand
	clock0    int64
	trans     []string // transcript (C14)
	extra     map[string]interface{}
}

func NewRunner(c *Case) *Runner {
	runSerial++
	root := filepath.Join(ScratchBase, fmt.Sprintf("vsim-%d-%d", os.Getpid(), runSerial))
	r := &Runner{C: c, Root: root, Cfg: c.Cfg, M: State{}, Ever: map[string]bool{}, Written: map[string]map[string]bool{}, Cnt: map[string]int64{},
		extra: map[string]interface{}{}}
	r.States = []State{State{}}
	r.MutOp = []int{-1}
	return r
}

// begin prepares the process-global simulator state for this run.
func (r *Runner) begin() error {
	_ = os.RemoveAll(r.Root)
	if err := os.MkdirAll(r.Root, 0o755); err != nil {
		return err
	}
	r.FS = vos.NewFS(r.Root, nil)
	if r.C.Free > 0 {
		r.FS.FreeSpace = r.C.Free
	} else {
		r.FS.FreeSpace = 1 << 40
	}
	vos.Cur = r.FS
	vsync.ResetPools()
	vsync.ResetSerial()
	vrt.ResetMapIter(r.C.MapSeed)
	vrt.EventBase = 0
	clock := r.C.Clock
	if clock == 0 {
		clock = 1_700_000_000_000_000_000
	}
	r.clock0 = clock
	vclock.Set(clock)
	return nil
}

// end releases everything the run holds.
func (r *Runner) end() {
	if r.FS != nil {
		r.FS.CloseAll()
	}
	vos.Cur = nil
	_ = os.RemoveAll(r.Root)
}

func (r *Runner) dbDir() string {
	if r.C.Slash {
		return filepath.Join(r.Root, "db") + string(filepath.Separator)
	}
	return filepath.Join(r.Root, "db")
}
func (r *Runner) mergeDir() string { return filepath.Join(r.Root, "db-merge") }

func (r *Runner) options(c Config, dir string) kv.Options {
	if r.C.ZeroTail || r.C.StdIO {
		c.IO = 0
	}
	return kv.Options{
		DirPath:            dir,
		DataFileSize:       c.FileSize,
		SyncStrategy:       kv.SyncStrategy(c.Sync),
		BytesPerSync:       c.BPS,
		IndexType:          c.Index,
		FileIOType:         c.IO,
		DataFileMergeRatio: 0,
		ShardNum:           c.Shards,
	}
}

func (r *Runner) wrote(key, val []byte) {
	if len(key) == 0 {
		return // rejected with ErrKeyIsEmpty: nothing was written
	}
	m := r.Written[string(key)]
	if m == nil {
		m = map[string]bool{}
		r.Written[string(key)] = m
	}
	m[string(val)] = true
	// the key has been handed to the engine: it counts as "ever written" even if its own batch deletes it again
	// (an intermediate flush may already have put the record on disk)
	r.Ever[string(key)] = true
}

func (r *Runner) inc(name string)          { r.Cnt[name]++ }
func (r *Runner) add(name string, n int64) { r.Cnt[name] += n }
func (r *Runner) violated() bool           { return r.V != nil || r.Aborted != "" || r.Infra != "" }
func (r *Runner) note(format string, a ...interface{}) {
	if r.C.Prop == "C14" {
		r.trans = append(r.trans, fmt.Sprintf(format, a...))
	}
}

// fail records a violation (first one wins) if the step is judged, else abandons the run.
func (r *Runner) fail(oracle, sig, format string, a ...interface{}) {
	if r.violated() {
		return
	}
	detail := scrub(fmt.Sprintf(format, a...))
	sig = scrub(sig)
	if !r.judging && os.Getenv("VSIM_JUDGE_ALL") == "" {
		r.Aborted = fmt.Sprintf("step %d: %s: %s", r.step, oracle, detail)
		return
	}
	if sig == "" {
		sig = oracle
	} else {
		sig = oracle + ":" + sig
	}
	// a violation that is a recorded known finding (matched by oracle and signature; the list comes from the driver)
	// is noted and the run goes on, so that a known finding does not shadow what else the run would have explored
	for _, k := range knownSigs() {
		if k.Property == r.C.Prop && k.Oracle == oracle && k.re != nil && k.re.MatchString(sig) {
			r.KnownHits = append(r.KnownHits, KnownHit{ID: k.ID, Sig: sig, Detail: detail})
			return
		}
	}
	r.V = &Violation{Prop: r.C.Prop, Oracle: oracle, Sig: sig, Detail: detail, Step: r.step}
}

// KnownHit is one occurrence of a recorded known finding inside a run.
type KnownHit struct {
	ID     string `json:"id"`
	Sig    string `json:"sig"`
	Detail string `json:"detail"`
}

type knownSig struct {
	ID       string `json:"id"`
	Property string `json:"property"`
	Oracle   string `json:"oracle"`
	SigRe    string `json:"sig_re"`
	re       *regexp.Regexp
}

var knownCache []knownSig
var knownLoaded bool

func knownSigs() []knownSig {
	if knownLoaded {
		return knownCache
	}
	knownLoaded = true
	if v := os.Getenv("VSIM_KNOWN"); v != "" {
		var ks []knownSig
		if json.Unmarshal([]byte(v), &ks) == nil {
			for i := range ks {
				if ks[i].SigRe != "" {
					ks[i].re, _ = regexp.Compile(ks[i].SigRe)
				}
			}
			knownCache = ks
		}
	}
	return knownCache
}

// protect runs fn, converting a panic into a message with the top engine frame.
func protect(fn func()) (pmsg string, frame string) {
	defer func() {
		if x := recover(); x != nil {
			if m, ok := vrt.IsFatal(x); ok {
				pmsg = "fatal error: " + m
			} else {
				pmsg = fmt.Sprintf("panic: %v", x)
			}
			frame = topEngineFrame(string(debug.Stack()))
		}
	}()
	fn()
	return "", ""
}

// topEngineFrame extracts the innermost engine function from a stack trace.
func topEngineFrame(st string) string {
	for _, ln := range strings.Split(st, "\n") {
		ln = strings.TrimSpace(ln)
		if strings.HasPrefix(ln, "github.com/XiXi-2024/xixi-kv") && !strings.Contains(ln, "/vsim/") {
			if i := strings.LastIndex(ln, "("); i > 0 {
				ln = ln[:i]
			}
			return strings.TrimPrefix(ln, "github.com/XiXi-2024/xixi-kv")
		}
	}
	return "?"
}

// call executes fn under panic protection; a panic is reported as a violation of oracle "panic".
func (r *Runner) call(what string, fn func()) bool {
	p, fr := protect(fn)
	if p != "" {
		r.fail("panic", what+"@"+fr, "%s: %s (in %s)", what, clip(p, 300), fr)
		return false
	}
	return true
}

// rootRe matches the per-process scratch roots, which must not leak into signatures (they contain the pid).
var rootRe = regexp.MustCompile(regexp.QuoteMeta(ScratchBase) + `/vsim-[a-z]*-?[0-9]+(-[0-9]+)?(/i[0-9]+)?`)

func scrub(s string) string { return rootRe.ReplaceAllString(s, "<root>") }

func clip(s string, n int) string {
	if len(s) > n {
		return s[:n] + "..."
	}
	return s
}

func errName(err error) string {
	switch {
	case err == nil:
		return "nil"
	case errors.Is(err, kv.ErrKeyNotFound):
		return "ErrKeyNotFound"
	case errors.Is(err, kv.ErrKeyIsEmpty):
		return "ErrKeyIsEmpty"
	case errors.Is(err, kv.ErrBatchCommitted):
		return "ErrBatchCommitted"
	case errors.Is(err, kv.ErrIndexUpdateFailed):
		return "ErrIndexUpdateFailed"
	case errors.Is(err, kv.ErrDataFileNotFound):
		return "ErrDataFileNotFound"
	case errors.Is(err, kv.ErrDatabaseIsUsing):
		return "ErrDatabaseIsUsing"
	case errors.Is(err, kv.ErrMergeIsProgress):
		return "ErrMergeIsProgress"
	case errors.Is(err, kv.ErrNoEnoughSpaceForMerge):
		return "ErrNoEnoughSpaceForMerge"
	case errors.Is(err, kv.ErrMergeRatioUnreached):
		return "ErrMergeRatioUnreached"
	case errors.Is(err, kv.ErrDataDirectoryCorrupted):
		return "ErrDataDirectoryCorrupted"
	}
	s := err.Error()
	if strings.Contains(s, "invalid crc") {
		return "ErrInvalidCRC"
	}
	if strings.Contains(s, "injected I/O error") {
		return "ErrInjected"
	}
	return "err(" + clip(s, 80) + ")"
}

func beq(a, b []byte) bool { return bytes.Equal(a, b) } // nil == empty

// showN is show with nil and empty unified (transcripts: nil == empty by the oracle's own convention).
func showN(b []byte) string {
	if len(b) == 0 {
		return `""`
	}
	return show(b)
}

func show(b []byte) string {
	if b == nil {
		return "<nil>"
	}
	if len(b) > 24 {
		return fmt.Sprintf("%q...(len %d)", b[:24], len(b))
	}
	return fmt.Sprintf("%q", b)
}

// openDB opens the database with r.Cfg. Returns false if Open failed (already reported).
func (r *Runner) openDB() bool {
	var db *kv.DB
	var err error
	ok := r.call("Open", func() { db, err = kv.Open(r.options(r.Cfg, r.dbDir())) })
	if !ok {
		return false
	}
	if err != nil {
		r.fail("open-error", errName(err), "Open(%s) failed: %v", r.Cfg, err)
		return false
	}
	r.DB = db
	return true
}

func (r *Runner) closeDB() bool {
	if r.DB == nil {
		return true
	}
	var err error
	ok := r.call("Close", func() { err = r.DB.Close() })
	r.DB = nil
	if !ok {
		return false
	}
	if err != nil {
		r.fail("close-error", errName(err), "Close failed: %v", err)
		return false
	}
	return true
}

// Dump is the full observable content of a database.
type Dump struct {
	Keys   []string
	Vals   map[string][]byte
	KeyNum int
}

// dumpDB reads the whole database through ListKeys, Get, Fold and Stat. A failure string is returned when the
// read paths disagree among themselves or fail.
func dumpDB(db *kv.DB, also map[string]bool) (d *Dump, failure string) {
	d = &Dump{Vals: map[string][]byte{}}
	p, fr := protect(func() {
		keys := db.ListKeys()
		for i, k := range keys {
			if k == nil {
				failure = fmt.Sprintf("ListKeys returned a nil key at %d of %d", i, len(keys))
				return
			}
			d.Keys = append(d.Keys, string(k))
		}
		for i := 1; i < len(d.Keys); i++ {
			if d.Keys[i-1] >= d.Keys[i] {
				failure = fmt.Sprintf("ListKeys not strictly ascending at %d: %q then %q", i, d.Keys[i-1], d.Keys[i])
				return
			}
		}
		for _, k := range d.Keys {
			v, err := db.Get([]byte(k))
			if err != nil {
				failure = fmt.Sprintf("Get(%q) of a listed key: %s", k, errName(err))
				return
			}
			d.Vals[k] = v
		}
		alsoSorted := make([]string, 0, len(also))
		for k := range also {
			alsoSorted = append(alsoSorted, k)
		}
		sort.Strings(alsoSorted) // engine calls must not happen in map-iteration order: the trace must replay exactly
		for _, k := range alsoSorted {
			if _, listed := d.Vals[k]; listed {
				continue
			}
			v, err := db.Get([]byte(k))
			if err == nil {
				failure = fmt.Sprintf("Get(%q) = %s but ListKeys does not list the key", k, show(v))
				return
			}
			if !errors.Is(err, kv.ErrKeyNotFound) {
				failure = fmt.Sprintf("Get(%q) of an unlisted key: %s", k, errName(err))
				return
			}
		}
		var fkeys []string
		ferr := db.Fold(func(k, v []byte) bool {
			fkeys = append(fkeys, string(k))
			if want, ok := d.Vals[string(k)]; !ok || !beq(want, v) {
				failure = fmt.Sprintf("Fold(%q) = %s, Get = %s", k, show(v), show(want))
			}
			return true
		})
		if failure != "" {
			return
		}
		if ferr != nil {
			failure = "Fold: " + errName(ferr)
			return
		}
		if strings.Join(fkeys, "\x00") != strings.Join(d.Keys, "\x00") {
			failure = fmt.Sprintf("Fold visited %d keys %q, ListKeys has %d %q", len(fkeys), clipKeys(fkeys), len(d.Keys), clipKeys(d.Keys))
			return
		}
		d.KeyNum = db.Stat().KeyNum
		if d.KeyNum != len(d.Keys) {
			failure = fmt.Sprintf("Stat.KeyNum = %d, ListKeys has %d", d.KeyNum, len(d.Keys))
		}
	})
	if p != "" {
		return d, fmt.Sprintf("%s (in %s)", clip(p, 200), fr)
	}
	return d, failure
}

func clipKeys(k []string) []string {
	if len(k) > 8 {
		return append(append([]string{}, k[:8]...), "...")
	}
	return k
}

// diffState compares a dump with a reference state; "" if equal.
func diffState(d *Dump, s State) string {
	for k, want := range s {
		got, ok := d.Vals[k]
		if !ok {
			return fmt.Sprintf("key %q missing (want %s)", k, show(want))
		}
		if !beq(got, want) {
			return fmt.Sprintf("key %q = %s, want %s", k, show(got), show(want))
		}
	}
	for k, got := range d.Vals {
		if _, ok := s[k]; !ok {
			return fmt.Sprintf("unexpected key %q = %s", k, show(got))
		}
	}
	return ""
}

// checkDump dumps the live database and compares it with the model.
func (r *Runner) checkDump(when string) bool {
	d, f := dumpDB(r.DB, r.Ever)
	if f != "" {
		r.fail("dump-inconsistent", "", "%s: %s", when, f)
		return false
	}
	if diff := diffState(d, r.M); diff != "" {
		r.fail("dump-mismatch", "", "%s: %s", when, diff)
		return false
	}
	r.inc("dumps")
	return true
}

func (r *Runner) mutated(opIdx int) {
	r.States = append(r.States, r.M.clone())
	r.MutOp = append(r.MutOp, opIdx)
}

func (r *Runner) advanceClock(op *Op) {
	dt := op.Dt
	if dt <= 0 {
		dt = 1000
	}
	vclock.Advance(time.Duration(dt))
}

// activeDataFile returns the model of the highest-numbered data file in the database directory.
func (r *Runner) activeDataFile() (string, *vos.MFile) {
	best := ""
	for n := range r.FS.Live.Names {
		if strings.HasPrefix(n, "db/") && strings.HasSuffix(n, ".data") && n > best {
			best = n
		}
	}
	if best == "" {
		return "", nil
	}
	return best, r.FS.Live.File(best)
}

func (r *Runner) dataFiles(dir string) []string {
	var out []string
	for n := range r.FS.Live.Names {
		if strings.HasPrefix(n, dir+"/") && strings.HasSuffix(n, ".data") {
			out = append(out, n)
		}
	}
	sort.Strings(out)
	return out
}

// result assembles the Result of the run.
func (r *Runner) result(idx int, seed uint64, start time.Time) *Result {
	res := &Result{Idx: idx, Seed: seed, Counters: r.Cnt, Traces: r.Traces, States: r.StateHs,
		SimNs: vclock.NowNs() - r.clock0, Events: vrt.EventBase, WallUs: time.Since(start).Microseconds()}
	res.CaseHash = r.C.Hash()
	if len(r.KnownHits) > 0 {
		seen := map[string]bool{}
		for _, k := range r.KnownHits {
			if !seen[k.ID] {
				seen[k.ID] = true
				res.Known = append(res.Known, k)
			}
		}
	}
	if r.FS != nil {
		h := uint64(14695981039346656037)
		for i := range r.FS.Journal {
			e := &r.FS.Journal[i]
			h = vrt.Mix(h, vrt.HashString(e.String()), e.Ev, uint64(e.Task+1))
		}
		res.JournalH = h
	}
	switch {
	case r.Infra != "":
		res.Outcome = "infra"
		res.Note = r.Infra
		res.Case = r.C
	case r.V != nil:
		res.Outcome = "violation"
		res.Violation = r.V
		res.Case = r.C
	case r.Aborted != "":
		res.Outcome = "aborted_aux"
		res.Note = r.Aborted
	default:
		res.Outcome = "ok"
	}
	return res
}
