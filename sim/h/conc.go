package h

import (
	"bytes"
	"errors"
	"fmt"
	"path/filepath"
	"sort"
	"strings"
	"time"

	kv "github.com/XiXi-2024/xixi-kv"
	"github.com/XiXi-2024/xixi-kv/vsim/vrt"
	"github.com/anishathalye/porcupine"
)

func init() { arms["conc"] = runConc }

// HistOp is one completed client operation, stamped with the simulator's global event numbers.
type HistOp struct {
	Client int
	Kind   string // put | del | get
	Key    string
	Val    string // input of put
	Out    string // output of get
	Found  bool
	Call   uint64
	Ret    uint64
}

// taskState is everything a concurrent client task writes: strictly per task (a shared recorder would synchronise
// the tasks in the race detector's eyes), merged after the join.
type taskState struct {
	id      int
	hist    []HistOp
	cnt     map[string]int64
	viol    *Violation
	aborted string
	notes   []string
}

func (t *taskState) inc(n string) { t.cnt[n]++ }

func (t *taskState) fail(prop string, judged bool, step int, oracle, sig, format string, a ...interface{}) {
	if t.viol != nil || t.aborted != "" {
		return
	}
	detail := scrub(fmt.Sprintf(format, a...))
	sig = scrub(sig)
	if !judged {
		t.aborted = fmt.Sprintf("client %d op %d: %s: %s", t.id, step, oracle, detail)
		return
	}
	if sig == "" {
		sig = oracle
	} else {
		sig = oracle + ":" + sig
	}
	t.viol = &Violation{Prop: prop, Oracle: oracle, Sig: sig, Detail: fmt.Sprintf("client %d op %d: %s", t.id, step, detail), Step: step}
}

// concJudged: which kinds of misbehaviour in the concurrent phase the property judges.
//
//	"any": panics, fatal errors, deadlocks, undocumented errors of every call (C09)
//	otherwise only the listed op kinds; the rest abandons the run.
var concJudged = map[string]string{
	"C08": "put del get",
	"C09": "any",
	"C06": "merge put del get",
	"C05": "batch put del get",
	"C10": "iter fold",
	"C20": "backup",
	"C18": "-", // the hint file is judged once the callers are quiescent
	"C17": "-", // nothing in the concurrent phase: Stat is recomputed once the callers are quiescent
}

func concJudges(prop, kind string) bool {
	j := concJudged[prop]
	if j == "any" {
		return true
	}
	for _, k := range strings.Fields(j) {
		if k == kind {
			return true
		}
	}
	return false
}

// runConc: phase A (setup, one task), phase B (clients under the seeded scheduler), phase C (verification).
func runConc(r *Runner) {
	if err := r.begin(); err != nil {
		r.Infra = err.Error()
		return
	}
	defer r.end()
	if vrt.RaceBuild || r.C.Prop == "C09" {
		r.FS.JournalOn = false
	}
	// ---- phase A
	sa := vrt.NewSched(vrt.Policy{Mode: "seq"})
	sa.Go("setup", func() {
		r.step = -1
		r.judging = false
		if !r.openDB() {
			return
		}
		for i := range r.C.Setup {
			op := &r.C.Setup[i]
			r.step = -1 - i
			r.dispatch(-1, op)
			if r.violated() {
				return
			}
			r.advanceClock(op)
		}
	})
	sa.Run()
	r.afterSched(sa)
	if r.violated() {
		if r.V != nil { // setup failures are never this arm's verdict
			r.Aborted = "setup: " + r.V.Detail
			r.V = nil
		}
		return
	}
	initial := r.M.clone()
	// ---- phase B
	n := len(r.C.Clients)
	states := make([]*taskState, n)
	sb := vrt.NewSched(r.C.Sched)
	for ci := 0; ci < n; ci++ {
		ts := &taskState{id: ci, cnt: map[string]int64{}}
		states[ci] = ts
		ops := r.C.Clients[ci]
		sb.Go(fmt.Sprintf("client%d", ci), func() { r.clientMain(ts, ops) })
	}
	sb.Run()
	r.Traces = append(r.Traces, sb.TraceHash)
	r.add("sched_switches", int64(sb.Switches))
	r.add("lock_waits", int64(sb.Waits))
	if r.C.Sched.Choices == nil {
		r.C.Sched.Choices = append([]int{}, sb.Recorded...) // explicit schedule for replay and shrinking
		if r.C.Sched.Choices == nil {
			r.C.Sched.Choices = []int{}
		}
	}
	if sb.CapHit {
		r.Infra = "step cap hit"
		return
	}
	if sb.Deadlock != "" {
		// the parked tasks never handed control back: nothing orders their writes before this goroutine's reads, so
		// their per-task state stays untouched (the race detector would rightly call reading it a race)
		r.judging = concJudged[r.C.Prop] == "any" || r.C.Prop == "C08" || r.C.Prop == "C06" || r.C.Prop == "C05"
		r.fail("deadlock", "", "deadlock among concurrent clients: %s", sb.Deadlock)
		return
	}
	// merge per-task results
	for _, ts := range states {
		for k, v := range ts.cnt {
			r.Cnt[k] += v
		}
	}
	for _, ts := range states {
		if ts.viol != nil && r.V == nil {
			r.V = ts.viol
		}
	}
	for _, ts := range states {
		if ts.aborted != "" && r.V == nil && r.Aborted == "" {
			r.Aborted = ts.aborted
		}
	}
	judgeAny := concJudged[r.C.Prop] == "any" || r.C.Prop == "C08" || r.C.Prop == "C06" || r.C.Prop == "C05"
	r.judging = judgeAny
	if sb.CapHit {
		r.Infra = "step cap hit"
		return
	}
	if sb.Deadlock != "" {
		r.fail("deadlock", "", "deadlock among concurrent clients: %s", sb.Deadlock)
	}
	if sb.Fatal != "" {
		r.fail("fatal", clip(sb.Fatal, 60), "%s", sb.Fatal)
	}
	for _, t := range sb.Tasks() {
		if t.Panic != "" {
			r.fail("panic", "task", "task %s: %s", t.Name, clip(t.Panic, 400))
		}
	}
	if r.violated() {
		return
	}
	// ---- history oracles
	var hist []HistOp
	for _, ts := range states {
		hist = append(hist, ts.hist...)
	}
	r.judging = true
	if r.C.Prop != "C09" && r.C.Prop != "C17" && r.C.Prop != "C18" { // C09 judges races, panics, deadlocks and bogus errors; histories are C08's business
		r.checkLinearizable(initial, hist)
		if r.violated() {
			return
		}
	}
	// ---- phase C
	sc := vrt.NewSched(vrt.Policy{Mode: "seq"})
	sc.Go("verify", func() { r.verifyQuiescent(initial, hist) })
	sc.Run()
	r.afterSched(sc)
}

// clientMain executes one client's program in the concurrent phase.
func (r *Runner) clientMain(ts *taskState, ops []Op) {
	prop := r.C.Prop
	for i := range ops {
		op := &ops[i]
		if ts.viol != nil || ts.aborted != "" {
			return
		}
		judged := concJudges(prop, op.K)
		switch op.K {
		case "put":
			val := op.Val.Bytes()
			var err error
			call := vrt.Stamp()
			p, fr := protect(func() { err = r.DB.Put(append([]byte(nil), op.Key...), val) })
			ret := vrt.Stamp()
			if p != "" {
				ts.fail(prop, judged, i, "panic", "Put@"+fr, "Put: %s (in %s)", clip(p, 300), fr)
				return
			}
			if err != nil {
				ts.fail(prop, concJudges(prop, "err") || concJudged[prop] == "any", i, "bogus-error", "Put:"+errName(err), "Put(%q) returned %s", op.Key, errName(err))
				return
			}
			ts.hist = append(ts.hist, HistOp{ts.id, "put", string(op.Key), string(val), "", false, call, ret})
			ts.inc("conc_puts")
		case "del":
			var err error
			call := vrt.Stamp()
			p, fr := protect(func() { err = r.DB.Delete(append([]byte(nil), op.Key...)) })
			ret := vrt.Stamp()
			if p != "" {
				ts.fail(prop, judged, i, "panic", "Delete@"+fr, "Delete: %s (in %s)", clip(p, 300), fr)
				return
			}
			if err != nil {
				ts.fail(prop, concJudged[prop] == "any", i, "bogus-error", "Delete:"+errName(err), "Delete(%q) returned %s although the call is individually valid", op.Key, errName(err))
				return
			}
			ts.hist = append(ts.hist, HistOp{ts.id, "del", string(op.Key), "", "", false, call, ret})
			ts.inc("conc_dels")
		case "get":
			var got []byte
			var err error
			call := vrt.Stamp()
			p, fr := protect(func() { got, err = r.DB.Get(append([]byte(nil), op.Key...)) })
			ret := vrt.Stamp()
			if p != "" {
				ts.fail(prop, judged, i, "panic", "Get@"+fr, "Get: %s (in %s)", clip(p, 300), fr)
				return
			}
			if err != nil && !errors.Is(err, kv.ErrKeyNotFound) {
				ts.fail(prop, concJudged[prop] == "any" || prop == "C08", i, "bogus-error", "Get:"+errName(err), "Get(%q) returned %s", op.Key, errName(err))
				return
			}
			ts.hist = append(ts.hist, HistOp{ts.id, "get", string(op.Key), "", string(got), err == nil, call, ret})
			ts.inc("conc_gets")
		case "list":
			var keys [][]byte
			p, fr := protect(func() { keys = r.DB.ListKeys() })
			if p != "" {
				ts.fail(prop, judged, i, "panic", "ListKeys@"+fr, "ListKeys: %s (in %s)", clip(p, 300), fr)
				return
			}
			for j, k := range keys {
				if k == nil {
					ts.fail(prop, judged, i, "listkeys-nil-key", "", "ListKeys returned a nil key at %d of %d", j, len(keys))
					return
				}
				if j > 0 && bytes.Compare(keys[j-1], k) >= 0 {
					ts.fail(prop, judged, i, "listkeys-order", "", "ListKeys not ascending at %d", j)
					return
				}
			}
			ts.inc("conc_lists")
		case "fold":
			var err error
			type kvp struct{ k, v string }
			var visited []kvp
			call := vrt.Stamp()
			snapAt := uint64(0)
			p, fr := protect(func() {
				err = r.DB.Fold(func(k, v []byte) bool {
					if snapAt == 0 {
						snapAt = vrt.Stamp() // the snapshot was taken before the first call-back
					}
					visited = append(visited, kvp{string(k), string(v)})
					return true
				})
			})
			if snapAt == 0 {
				snapAt = vrt.Stamp()
			}
			if p != "" {
				ts.fail(prop, judged, i, "panic", "Fold@"+fr, "Fold: %s (in %s)", clip(p, 300), fr)
				return
			}
			if err != nil {
				ts.fail(prop, judged, i, "bogus-error", "Fold:"+errName(err), "Fold returned %s", errName(err))
				return
			}
			if prop == "C10" {
				// Fold visits one snapshot: every (key, value) it hands out - and the absence of every other key - is
				// a read at one instant between the call and the first call-back; the per-key history check decides
				// whether such an instant exists while writers run
				seen := map[string]bool{}
				for j, kv := range visited {
					if j > 0 && visited[j-1].k >= kv.k {
						ts.fail(prop, true, i, "fold-order", "", "Fold visits %q after %q", kv.k, visited[j-1].k)
						return
					}
					seen[kv.k] = true
					ts.hist = append(ts.hist, HistOp{3000 + ts.id*100 + i, "get", kv.k, "", kv.v, true, call, snapAt})
				}
				for _, k := range r.keySpace() {
					if !seen[k] {
						ts.hist = append(ts.hist, HistOp{3000 + ts.id*100 + i, "get", k, "", "", false, call, snapAt})
					}
				}
				ts.inc("conc_fold_snapshots")
			}
			ts.inc("conc_folds")
		case "stat":
			var st *kv.Stat
			p, fr := protect(func() { st = r.DB.Stat() })
			if p != "" {
				ts.fail(prop, judged, i, "panic", "Stat@"+fr, "Stat: %s (in %s)", clip(p, 300), fr)
				return
			}
			if st.KeyNum < 0 || st.ReclaimableSize < 0 || st.ReclaimableSize > st.DiskSize {
				ts.fail(prop, judged, i, "stat-range", "", "Stat = %+v under concurrency", *st)
				return
			}
			ts.inc("conc_stats")
		case "sync":
			var err error
			p, fr := protect(func() { err = r.DB.Sync() })
			if p != "" {
				ts.fail(prop, judged, i, "panic", "Sync@"+fr, "Sync: %s (in %s)", clip(p, 300), fr)
				return
			}
			if err != nil {
				ts.fail(prop, judged, i, "bogus-error", "Sync:"+errName(err), "Sync returned %s", errName(err))
				return
			}
			ts.inc("conc_syncs")
		case "merge":
			var err error
			p, fr := protect(func() { err = r.DB.Merge() })
			if p != "" {
				ts.fail(prop, judged, i, "panic", "Merge@"+fr, "Merge: %s (in %s)", clip(p, 300), fr)
				return
			}
			if err != nil {
				ts.inc("conc_merge_errors")
				if !errors.Is(err, kv.ErrMergeIsProgress) && !strings.Contains(err.Error(), "merge abandoned") {
					ts.fail(prop, judged, i, "bogus-error", "Merge:"+errName(err), "Merge returned %s", errName(err))
					return
				}
			} else {
				ts.inc("conc_merges")
			}
		case "iter":
			r.concIter(ts, i, op, judged)
		case "batch":
			r.concBatch(ts, i, op, judged)
		case "backup":
			r.concBackup(ts, i, op, judged)
		case "sleep":
		case "yield":
			vrt.Point(vrt.PUser, 0)
		}
	}
}

// concIter runs an iterator session concurrently with writers. What it yields is recorded as reads stamped with
// the interval of NewIterator (the snapshot instant), so the per-key history check decides snapshot isolation.
func (r *Runner) concIter(ts *taskState, i int, op *Op, judged bool) {
	prop := r.C.Prop
	var it *kv.Iterator
	call := vrt.Stamp()
	p, fr := protect(func() { it = r.DB.NewIterator(kv.IteratorOptions{Prefix: []byte(op.Key), Reverse: op.Flag}) })
	ret := vrt.Stamp()
	if p != "" {
		ts.fail(prop, judged, i, "panic", "NewIterator@"+fr, "NewIterator: %s (in %s)", clip(p, 300), fr)
		return
	}
	seen := map[string]bool{}
	var order []string
	passes := 1 + op.N
	p, fr = protect(func() {
		for pass := 0; pass < passes; pass++ {
			var prev []byte
			first := true
			cur := map[string]string{}
			for it.Rewind(); it.Valid(); it.Next() {
				k := it.Key()
				v, err := it.Value()
				if err != nil {
					ts.fail(prop, judged, i, "iter-value-error", errName(err), "Iterator.Value(%q) = %s while writers run", k, errName(err))
					return
				}
				if !first {
					c := bytes.Compare(prev, k)
					if (!op.Flag && c >= 0) || (op.Flag && c <= 0) {
						ts.fail(prop, judged, i, "iter-order", "", "iterator yields %q after %q (reverse=%v)", k, prev, op.Flag)
						return
					}
				}
				if !bytes.HasPrefix(k, []byte(op.Key)) {
					ts.fail(prop, judged, i, "iter-prefix", "", "iterator yields %q which lacks prefix %q", k, op.Key)
					return
				}
				first = false
				prev = append(prev[:0], k...)
				cur[string(k)] = string(v)
				if pass == 0 {
					order = append(order, string(k))
				}
			}
			if pass == 0 {
				for _, k := range order { // in yield order, not map order: the recorded history must replay byte for byte
					if seen[k] {
						continue
					}
					seen[k] = true
					ts.hist = append(ts.hist, HistOp{1000 + ts.id*100 + i, "get", k, "", cur[k], true, call, ret})
				}
			} else {
				// later passes over the same iterator must yield exactly the same snapshot
				if len(cur) != len(seen) {
					ts.fail(prop, judged, i, "iter-unstable", "", "pass %d over one iterator yields %d keys, the first pass %d", pass, len(cur), len(seen))
					return
				}
				for _, h := range ts.hist {
					if h.Client == 1000+ts.id*100+i && h.Kind == "get" && h.Found && cur[h.Key] != h.Out {
						ts.fail(prop, judged, i, "iter-unstable", "", "pass %d: %q = %q, first pass %q: later writes disturbed the iterator", pass, h.Key, cur[h.Key], h.Out)
						return
					}
				}
			}
		}
		it.Close()
	})
	if p != "" {
		ts.fail(prop, judged, i, "panic", "Iterator@"+fr, "iterator session: %s (in %s)", clip(p, 300), fr)
		return
	}
	// keys of the run's key space that were not yielded are "not found" reads at the snapshot instant
	for _, k := range r.keySpace() {
		if !seen[k] && strings.HasPrefix(k, string(op.Key)) {
			ts.hist = append(ts.hist, HistOp{1000 + ts.id*100 + i, "get", k, "", "", false, call, ret})
		}
	}
	ts.inc("conc_iter_sessions")
	if len(order) > 1 {
		ts.inc("conc_iter_sessions_multi")
	}
}

func (r *Runner) keySpace() []string {
	set := map[string]bool{}
	add := func(ops []Op) {
		for i := range ops {
			if len(ops[i].Key) > 0 && ops[i].K != "iter" {
				set[string(ops[i].Key)] = true
			}
			for j := range ops[i].Sub {
				if len(ops[i].Sub[j].Key) > 0 {
					set[string(ops[i].Sub[j].Key)] = true
				}
			}
		}
	}
	add(r.C.Setup)
	for _, c := range r.C.Clients {
		add(c)
	}
	ks := make([]string, 0, len(set))
	for k := range set {
		ks = append(ks, k)
	}
	sort.Strings(ks)
	return ks
}

// concBatch holds a batch open while other clients run. Unstaged reads are recorded as reads at the instant of
// NewBatch; staged writes take effect at Commit.
func (r *Runner) concBatch(ts *taskState, i int, op *Op, judged bool) {
	prop := r.C.Prop
	var b *kv.Batch
	call := vrt.Stamp()
	p, fr := protect(func() { b = r.DB.NewBatch(kv.BatchOptions{Sync: op.Flag}) })
	ret := vrt.Stamp()
	if p != "" {
		ts.fail(prop, judged, i, "panic", "NewBatch@"+fr, "NewBatch: %s (in %s)", clip(p, 300), fr)
		return
	}
	type st struct {
		val string
		del bool
	}
	overlay := map[string]st{}
	var order []string
	unstaged := map[string]HistOp{}
	for si := range op.Sub {
		s := &op.Sub[si]
		switch s.K {
		case "bput":
			val := s.Val.Bytes()
			var err error
			p, fr := protect(func() { err = b.Put(append([]byte(nil), s.Key...), val) })
			if p != "" || err != nil {
				ts.fail(prop, judged, i, "batch-put", errName(err), "Batch.Put: %s %s (%s)", clip(p, 200), errName(err), fr)
				return
			}
			overlay[string(s.Key)] = st{val: string(val)}
			order = append(order, string(s.Key))
		case "bdel":
			var err error
			p, fr := protect(func() { err = b.Delete(append([]byte(nil), s.Key...)) })
			if p != "" || err != nil {
				ts.fail(prop, judged, i, "batch-delete", errName(err), "Batch.Delete: %s %s (%s)", clip(p, 200), errName(err), fr)
				return
			}
			overlay[string(s.Key)] = st{del: true}
			order = append(order, string(s.Key))
		case "bget":
			var got []byte
			var err error
			p, fr := protect(func() { got, err = b.Get(append([]byte(nil), s.Key...)) })
			if p != "" {
				ts.fail(prop, judged, i, "panic", "Batch.Get@"+fr, "Batch.Get: %s (in %s)", clip(p, 300), fr)
				return
			}
			if err != nil && !errors.Is(err, kv.ErrKeyNotFound) {
				ts.fail(prop, judged, i, "batch-get-error", errName(err), "Batch.Get(%q) = %s", s.Key, errName(err))
				return
			}
			if o, ok := overlay[string(s.Key)]; ok {
				if (o.del && err == nil) || (!o.del && (err != nil || string(got) != o.val)) {
					ts.fail(prop, judged, i, "batch-get-mismatch", "staged", "Batch.Get(%q) = %s, %s; the batch staged %q (deleted=%v)", s.Key, show(got), errName(err), clip(o.val, 30), o.del)
					return
				}
			} else {
				h := HistOp{2000 + ts.id*100 + i, "get", string(s.Key), "", string(got), err == nil, call, ret}
				if prev, ok := unstaged[string(s.Key)]; ok {
					if prev.Found != h.Found || prev.Out != h.Out {
						ts.fail(prop, judged, i, "batch-view-changed", "", "two reads of unstaged key %q inside one open batch returned %q then %q: another client's write took effect while the batch held the database", s.Key, clip(prev.Out, 30), clip(h.Out, 30))
						return
					}
				} else {
					unstaged[string(s.Key)] = h
					ts.hist = append(ts.hist, h)
				}
				ts.inc("conc_batch_unstaged_reads")
			}
		case "yield":
			vrt.Point(vrt.PUser, 0)
		}
	}
	var err error
	ccall := vrt.Stamp()
	p, fr = protect(func() { err = b.Commit() })
	cret := vrt.Stamp()
	if p != "" || err != nil {
		ts.fail(prop, judged, i, "commit-error", errName(err), "Commit: %s %s (%s)", clip(p, 200), errName(err), fr)
		return
	}
	final := map[string]st{}
	for _, k := range order {
		final[k] = overlay[k]
	}
	ks := make([]string, 0, len(final))
	for k := range final {
		ks = append(ks, k)
	}
	sort.Strings(ks)
	for _, k := range ks {
		o := final[k]
		if o.del {
			ts.hist = append(ts.hist, HistOp{ts.id, "del", k, "", "", false, ccall, cret})
		} else {
			ts.hist = append(ts.hist, HistOp{ts.id, "put", k, o.val, "", false, ccall, cret})
		}
	}
	ts.inc("conc_batches")
}

// concBackup takes a backup while writers run; the copy's content is recorded as reads at the Backup interval.
func (r *Runner) concBackup(ts *taskState, i int, op *Op, judged bool) {
	prop := r.C.Prop
	dir := filepath.Join(r.Root, fmt.Sprintf("bk%d", op.N))
	var err error
	call := vrt.Stamp()
	p, fr := protect(func() { err = r.DB.Backup(dir) })
	ret := vrt.Stamp()
	if p != "" || err != nil {
		ts.fail(prop, judged, i, "backup-error", errName(err), "Backup: %s %s (%s)", clip(p, 200), errName(err), fr)
		return
	}
	var cp *kv.DB
	p, fr = protect(func() { cp, err = kv.Open(r.options(r.Cfg, dir)) })
	if p != "" || err != nil {
		ts.fail(prop, judged, i, "backup-open-error", errName(err), "opening the backup: %s %s (%s)", clip(p, 200), errName(err), fr)
		return
	}
	d, f := dumpDB(cp, nil)
	protect(func() { _ = cp.Close() })
	if f != "" {
		ts.fail(prop, judged, i, "backup-dump", "", "dump of the backup: %s", f)
		return
	}
	for _, k := range r.keySpace() {
		v, ok := d.Vals[k]
		ts.hist = append(ts.hist, HistOp{3000 + ts.id*100 + i, "get", k, "", string(v), ok, call, ret})
	}
	for k := range d.Vals {
		known := false
		for _, ks := range r.keySpace() {
			if ks == k {
				known = true
			}
		}
		if !known {
			ts.fail(prop, judged, i, "backup-unknown-key", "", "the backup holds key %q which nobody wrote", k)
			return
		}
	}
	ts.inc("conc_backups")
}

// ---- linearizability of the recorded history, per key, against a register model ----

type regState struct {
	present bool
	val     string
}

type regIn struct {
	kind string
	val  string
}

type regOut struct {
	found bool
	val   string
}

var registerModel = porcupine.Model{
	Init: func() interface{} { return regState{} },
	Step: func(state, input, output interface{}) (bool, interface{}) {
		s := state.(regState)
		in := input.(regIn)
		switch in.kind {
		case "put":
			return true, regState{true, in.val}
		case "del":
			return true, regState{}
		default:
			out := output.(regOut)
			if out.found != s.present {
				return false, s
			}
			if s.present && out.val != s.val {
				return false, s
			}
			return true, s
		}
	},
	Equal: func(a, b interface{}) bool { return a.(regState) == b.(regState) },
	DescribeOperation: func(input, output interface{}) string {
		in := input.(regIn)
		switch in.kind {
		case "put":
			return fmt.Sprintf("put(%s)", clip(in.val, 12))
		case "del":
			return "del"
		}
		out := output.(regOut)
		if !out.found {
			return "get -> not found"
		}
		return fmt.Sprintf("get -> %s", clip(out.val, 12))
	},
}

func (r *Runner) checkLinearizable(initial State, hist []HistOp) {
	byKey := map[string][]HistOp{}
	for _, h := range hist {
		byKey[h.Key] = append(byKey[h.Key], h)
	}
	keys := make([]string, 0, len(byKey))
	for k := range byKey {
		keys = append(keys, k)
	}
	sort.Strings(keys)
	for _, k := range keys {
		ops := byKey[k]
		var pops []porcupine.Operation
		// the pre-existing value is a put that completed before everything else
		if v, ok := initial[k]; ok {
			pops = append(pops, porcupine.Operation{ClientId: 9999, Input: regIn{"put", string(v)}, Call: -2, Output: regOut{}, Return: -1})
		}
		for _, h := range ops {
			pops = append(pops, porcupine.Operation{ClientId: h.Client, Input: regIn{h.Kind, h.Val}, Call: int64(h.Call),
				Output: regOut{h.Found, h.Out}, Return: int64(h.Ret)})
		}
		res := porcupine.CheckOperationsTimeout(registerModel, pops, 20*time.Second)
		switch res {
		case porcupine.Illegal:
			sort.Slice(ops, func(a, b int) bool { return ops[a].Call < ops[b].Call })
			var lines []string
			for _, h := range ops {
				lines = append(lines, fmt.Sprintf("[%d,%d] c%d %s", h.Call, h.Ret, h.Client, registerModel.DescribeOperation(regIn{h.Kind, h.Val}, regOut{h.Found, h.Out})))
			}
			if len(lines) > 30 {
				lines = lines[:30]
			}
			r.fail("not-linearizable", "", "the history of key %q admits no linearization as a register (initial %s): %s", k, show(initial[k]), strings.Join(lines, "; "))
			return
		case porcupine.Unknown:
			r.inc("linearizability_inconclusive")
		default:
			r.inc("linearizability_checks")
		}
	}
}

// verifyQuiescent: with all callers quiescent, the live mapping must be the one a restart recovers (and, per
// key, a value some linearization ends with).
func (r *Runner) verifyQuiescent(initial State, hist []HistOp) {
	r.judging = true
	if r.C.Prop == "C09" {
		// nothing but a clean shutdown (a panic or hang here is still a finding; Close is not among the calls
		// the property lists, so it runs after quiescence only)
		r.judging = false
		r.closeDB()
		return
	}
	if r.C.Prop == "C17" || r.C.Prop == "C18" {
		r.judging = false // a wrong mapping is C08's business; only the accounting / the hint file is judged here
	}
	live, f := dumpDB(r.DB, nil)
	if f != "" {
		r.fail("quiescent-dump", "", "live dump at quiescence: %s", f)
		return
	}
	if r.C.Prop == "C18" {
		// the hint file of a merge that ran next to writers: it must index the merged files entry by entry, and
		// opening through it must give what scanning gives
		r.M = State(live.Vals).clone()
		if r.Cnt["conc_merges"] > 0 {
			r.extra["hintConc"] = true
			r.judging = true
			r.checkHint()
			r.judging = false
		}
		r.closeDB()
		return
	}
	if r.C.Prop == "C17" {
		// the counters after concurrent use, and after the restart that recomputes them
		r.M = State(live.Vals).clone()
		r.judging = true
		r.checkStatExact("at quiescence after concurrent use")
		if r.violated() {
			return
		}
		r.judging = false
		if !r.closeDB() || !r.openDB() {
			return
		}
		r.judging = true
		r.checkStatExact("after the restart that follows concurrent use")
		r.judging = false
		r.closeDB()
		return
	}
	// the final value of each key must be explainable: add a final read per key to its history
	var finals []HistOp
	last := vrt.Stamp()
	for _, k := range r.keySpace() {
		v, ok := live.Vals[k]
		finals = append(finals, HistOp{8888, "get", k, "", string(v), ok, last, last + 1})
	}
	r.checkLinearizable(initial, append(append([]HistOp{}, hist...), finals...))
	if r.violated() {
		return
	}
	if r.C.Prop == "C06" || r.C.Prop == "C10" || r.C.Prop == "C20" || r.C.Prop == "C05" {
		// writers are partitioned one-writer-per-key here, so the final value is fully determined
		want := r.finalByProgramOrder(initial)
		if want != nil {
			if d := diffState(live, want); d != "" {
				r.fail("final-state", "", "at quiescence the live database differs from the outcome the (one-writer-per-key) programs determine: %s", d)
				return
			}
		}
	}
	if vrt.RaceBuild {
		r.closeDB()
		return
	}
	rounds := 1
	if r.Cnt["conc_merges"] > 0 {
		rounds = 2 // the adopting restart and the one after it
	}
	for round := 0; round < rounds; round++ {
		if !r.closeDB() {
			return
		}
		if !r.openDB() {
			return
		}
		after, f := dumpDB(r.DB, nil)
		if f != "" {
			r.fail("restart-dump", "", "dump after restart %d: %s", round+1, f)
			return
		}
		if d := diffState(after, State(live.Vals)); d != "" {
			r.fail("live-vs-restart", "", "the mapping seen live at quiescence is not the one recovered by restart %d: %s", round+1, d)
			return
		}
		r.inc("live_vs_restart_checks")
	}
	r.closeDB()
}

// finalByProgramOrder returns the final state when every key is written by at most one client (nil otherwise).
func (r *Runner) finalByProgramOrder(initial State) State {
	owner := map[string]int{}
	final := initial.clone()
	for ci, ops := range r.C.Clients {
		apply := func(kind string, key []byte, val *Val) bool {
			k := string(key)
			if o, ok := owner[k]; ok && o != ci {
				return false
			}
			owner[k] = ci
			if kind == "put" || kind == "bput" {
				final[k] = val.Bytes()
			} else {
				delete(final, k)
			}
			return true
		}
		for i := range ops {
			switch ops[i].K {
			case "put", "del":
				if !apply(ops[i].K, ops[i].Key, ops[i].Val) {
					return nil
				}
			case "batch":
				for j := range ops[i].Sub {
					s := &ops[i].Sub[j]
					if s.K == "bput" || s.K == "bdel" {
						if !apply(s.K, s.Key, s.Val) {
							return nil
						}
					}
				}
			case "iter":
				for j := range ops[i].Sub {
					s := &ops[i].Sub[j]
					if s.K == "put" || s.K == "del" {
						if !apply(s.K, s.Key, s.Val) {
							return nil
						}
					}
				}
			}
		}
	}
	return final
}
