package h

import (
	"fmt"
	"strings"

	"github.com/XiXi-2024/xixi-kv/vsim/vos"
	"github.com/XiXi-2024/xixi-kv/vsim/vrt"
)

func init() {
	arms["diff"] = runDiff
	generators["C14"] = func(c *Case, rng *vrt.Rand, tier string) func(r *Runner, i int) *Op {
		c.Arm = "diff"
		c.Hostile = rng.Chance(0.3) // the caller reuses its buffers: only some index types copy the key on their own
		c.Cfg = genConfig(rng, rng.Chance(0.5))
		n := rng.Range(1, 3)
		for i := 0; i < n; i++ {
			cfg := genConfig(rng, rng.Chance(0.5))
			switch rng.Intn(4) {
			case 0: // differ in the index only
				x := c.Cfg
				x.Index = cfg.Index
				x.Shards = cfg.Shards
				cfg = x
			case 1: // differ in the I/O back-end only (bytes must be identical)
				x := c.Cfg
				x.IO = 1 - c.Cfg.IO
				cfg = x
			case 2: // differ in layout / flush timing only
				x := c.Cfg
				x.FileSize = cfg.FileSize
				x.Sync = cfg.Sync
				x.BPS = cfg.BPS
				cfg = x
			}
			c.Cfgs = append(c.Cfgs, cfg)
		}
		s := newSwarm(rng, []string{"put", "del", "get", "sync", "list", "fold", "batch", "iter", "restart", "merge", "stat"}, 45)
		s.W["put"] += 5
		s.W["get"] += 2
		s.W["iter"] += 1
		if s.W["merge"] > 1 {
			s.W["merge"] = 1
		}
		s.ValW[5] = min(s.ValW[5], 1)
		// a restart keeps the run's own configuration (Cfg nil), so every configuration restarts into itself
		return s.genPlain(rng, func() *Config { return nil })
	}
}

// runDiff executes one generated program under 2..4 configurations and compares the transcripts: every return
// value and error of every call, every ListKeys / Fold / iterator sequence, the dump after every restart; and,
// when DataFileSize is equal, the data-file bytes after Close.
func runDiff(r *Runner) {
	r.RunSeq()
	if r.violated() {
		return
	}
	base := r.finalDataFiles()
	for ci, cfg := range r.C.Cfgs {
		c2 := r.C.Clone()
		c2.Cfg = cfg
		c2.Cfgs = append(append([]Config{}, r.C.Cfgs...), r.C.Cfg) // same set of configurations for the layout-equality test
		r2 := NewRunner(c2)
		r2.RunSeq()
		for k, v := range r2.Cnt {
			r.Cnt[k] += v
		}
		r.inc("configs_compared")
		if r2.Infra != "" {
			r.Infra = r2.Infra
			return
		}
		if r2.Aborted != "" {
			r.Aborted = fmt.Sprintf("configuration %d (%s): %s", ci+1, cfg, r2.Aborted)
			return
		}
		r.judging = true
		if r2.V != nil {
			// the same program passed under the first configuration: behaviour depends on the configuration
			r.V = &Violation{Prop: "C14", Oracle: "config-dependent-" + r2.V.Oracle, Sig: "config-dependent-" + r2.V.Sig,
				Detail: fmt.Sprintf("under configuration {%s} the program misbehaves although it is fine under {%s}: %s", cfg, r.C.Cfg, r2.V.Detail), Step: r2.V.Step}
			return
		}
		n := len(r.trans)
		if len(r2.trans) < n {
			n = len(r2.trans)
		}
		for i := 0; i < n; i++ {
			if r.trans[i] != r2.trans[i] {
				r.fail("transcript-divergence", "", "call %d behaves differently: {%s} -> %s ; {%s} -> %s", i, r.C.Cfg, clip(r.trans[i], 200), cfg, clip(r2.trans[i], 200))
				return
			}
		}
		if len(r.trans) != len(r2.trans) {
			r.fail("transcript-divergence", "length", "transcripts have %d and %d entries under {%s} and {%s}", len(r.trans), len(r2.trans), r.C.Cfg, cfg)
			return
		}
		// bytes are comparable when the layout is: equal DataFileSize and no adopted merge (the order in which Merge
		// visits the files is map-iteration order, which legitimately differs)
		if cfg.FileSize == r.C.Cfg.FileSize && r.Cnt["merges"] == 0 {
			other := r2.finalDataFiles()
			if d := diffFiles(base, other); d != "" {
				r.fail("bytes-divergence", "", "with equal DataFileSize the data files differ between {%s} and {%s}: %s", r.C.Cfg, cfg, d)
				return
			}
			r.inc("byte_identical_layouts")
		}
	}
	r.add("transcript_entries", int64(len(r.trans)))
}

func (r *Runner) finalDataFiles() map[string][]byte {
	out := map[string][]byte{}
	t := vos.Replay(nil, r.FS.Journal, len(r.FS.Journal), nil)
	for n := range t.Names {
		if isDBData(n) {
			out[n] = append([]byte(nil), logicalContent(t.File(n))...)
		}
	}
	return out
}

func diffFiles(a, b map[string][]byte) string {
	for n, x := range a {
		y, ok := b[n]
		if !ok {
			return n + " exists only in the first"
		}
		if string(x) != string(y) {
			i := 0
			for i < len(x) && i < len(y) && x[i] == y[i] {
				i++
			}
			return fmt.Sprintf("%s differs at byte %d (lengths %d and %d)", n, i, len(x), len(y))
		}
	}
	for n := range b {
		if _, ok := a[n]; !ok {
			return n + " exists only in the second"
		}
	}
	return ""
}

var _ = strings.Join
