package h

import (
	"errors"
	"fmt"
	"io"
	"os"
	"path/filepath"
	"sort"
	"strconv"
	"strings"

	kv "github.com/XiXi-2024/xixi-kv"
	"github.com/XiXi-2024/xixi-kv/datafile"
	"github.com/XiXi-2024/xixi-kv/vsim/vos"
	"github.com/XiXi-2024/xixi-kv/vsim/vrt"
)

func init() { arms["damage"] = runDamage }

// runDamage builds a small database, closes it, and then alters stored bytes of its data and hint files on
// copies of the directory: every single-bit flip when the files are small (complete for that run), otherwise a
// seeded sample biased to chunk and record headers; plus multi-byte overwrites, truncations, garbage.
func runDamage(r *Runner) {
	r.RunSeq()
	if r.violated() {
		return
	}
	ctx := &crashCtx{r: r, journal: r.FS.Journal, rng: vrt.NewRand(vrt.Mix(r.C.Seed, 0xda3a6e))}
	ctx.imgRoot = filepath.Join(ScratchBase, fmt.Sprintf("vsim-dmg-%d", os.Getpid()))
	defer os.RemoveAll(ctx.imgRoot)
	tree := vos.Replay(nil, ctx.journal, len(ctx.journal), nil)
	cfg := r.Cfg
	var files []string
	total := int64(0)
	for _, n := range tree.SortedNames() {
		if (strings.HasPrefix(n, "db/") || strings.HasPrefix(n, "db-merge/")) && (strings.HasSuffix(n, ".data") || strings.HasSuffix(n, ".hint")) {
			f := tree.File(n)
			if f.Size > 0 && f.Size < 1<<20 {
				files = append(files, n)
				total += f.Size
			}
		}
	}
	if len(files) == 0 {
		return
	}
	r.judging = true
	if d := r.C.Damage; d != nil {
		ctx.tryDamage(tree, cfg, *d)
		return
	}
	limit := int64(r.C.N("flipall", 256))
	if total <= limit {
		r.inc("exhaustive_flip_runs")
		for _, n := range files {
			f := tree.File(n)
			for off := int64(0); off < f.Size; off++ {
				for bit := 0; bit < 8; bit++ {
					ctx.tryDamage(tree, cfg, Damage{File: n, Kind: "flip", Off: off, Bit: bit})
					if r.violated() {
						return
					}
				}
			}
		}
	} else {
		// sample flips, biased to record starts (chunk header + record header live in the first ~16 bytes)
		starts := recordStarts(r, tree, files)
		nflip := r.C.N("flips", 150)
		for i := 0; i < nflip; i++ {
			n := files[ctx.rng.Intn(len(files))]
			f := tree.File(n)
			var off int64
			if st := starts[n]; len(st) > 0 && ctx.rng.Chance(0.6) {
				off = st[ctx.rng.Intn(len(st))] + int64(ctx.rng.Intn(16))
			} else {
				off = ctx.rng.Int63n(f.Size)
			}
			if off >= f.Size {
				off = f.Size - 1
			}
			ctx.tryDamage(tree, cfg, Damage{File: n, Kind: "flip", Off: off, Bit: ctx.rng.Intn(8)})
			if r.violated() {
				return
			}
		}
	}
	// multi-byte overwrites, short zero runs, truncations, garbage blocks
	nover := r.C.N("overwrites", 40)
	for i := 0; i < nover; i++ {
		n := files[ctx.rng.Intn(len(files))]
		f := tree.File(n)
		kind := "overwrite"
		if ctx.rng.Chance(0.2) {
			kind = "zero"
		}
		ctx.tryDamage(tree, cfg, Damage{File: n, Kind: kind, Off: ctx.rng.Int63n(f.Size), Len: ctx.rng.Range(2, 48), Seed: ctx.rng.Uint64()})
		if r.violated() {
			return
		}
	}
	for _, n := range files {
		f := tree.File(n)
		lo := f.Size - int64(r.C.N("truncspan", 160))
		if lo < 0 {
			lo = 0
		}
		step := int64(1)
		for off := lo; off < f.Size; off += step {
			ctx.tryDamage(tree, cfg, Damage{File: n, Kind: "truncate", Off: off})
			if r.violated() {
				return
			}
		}
		if ctx.rng.Chance(0.5) {
			ctx.tryDamage(tree, cfg, Damage{File: n, Kind: "garbage", Off: (ctx.rng.Int63n(f.Size) / blockSz) * blockSz, Len: blockSz, Seed: ctx.rng.Uint64()})
			if r.violated() {
				return
			}
		}
	}
	// a whole, valid record of the same length copied over another one (a misdirected write): every checksum still
	// holds, only the key can tell
	starts := recordStarts(r, tree, files)
	ntrans := r.C.N("transplants", 8)
	for _, n := range files {
		st := starts[n]
		f := tree.File(n)
		if strings.HasSuffix(n, ".hint") {
			st = fullChunkStarts(f.Content()) // two hint entries of the same length exchanged: a key then points at another key's record
		}
		if len(st) < 2 {
			continue
		}
		ext := func(i int) int64 {
			end := f.Size
			if i+1 < len(st) {
				end = st[i+1]
			}
			return end - st[i]
		}
		type pair struct{ dst, src int }
		var pairs []pair
		for i := range st {
			for j := range st {
				if i != j && ext(i) == ext(j) && ext(i) > 0 && ext(i) < blockSz && st[i]/blockSz == (st[i]+ext(i)-1)/blockSz && st[j]/blockSz == (st[j]+ext(j)-1)/blockSz {
					pairs = append(pairs, pair{i, j})
				}
			}
		}
		for k := 0; k < ntrans && len(pairs) > 0; k++ {
			p := pairs[ctx.rng.Intn(len(pairs))]
			ctx.tryDamage(tree, cfg, Damage{File: n, Kind: "transplant", Off: st[p.dst], Src: st[p.src], Len: int(ext(p.dst))})
			if r.violated() {
				return
			}
		}
	}
	r.add("damage_images", int64(ctx.images))
}

// N reads a small integer knob of the case (Params-like, stored in FaultAt/Cuts-free fields would be cryptic).
func (c *Case) N(name string, def int) int {
	if c.Knobs != nil {
		if v, ok := c.Knobs[name]; ok {
			return v
		}
	}
	return def
}

// recordStarts returns the byte offsets at which records start, per file, from a scan of the undamaged files.
func recordStarts(r *Runner, tree *vos.Tree, files []string) map[string][]int64 {
	out := map[string][]int64{}
	tmp := filepath.Join(ScratchBase, fmt.Sprintf("vsim-rs-%d", os.Getpid()))
	_ = os.RemoveAll(tmp)
	_ = os.MkdirAll(tmp, 0o755)
	defer os.RemoveAll(tmp)
	for _, n := range files {
		if !strings.HasSuffix(n, ".data") {
			continue
		}
		f := tree.File(n)
		base := filepath.Base(n)
		id, err := strconv.ParseUint(strings.TrimSuffix(base, ".data"), 10, 32)
		if err != nil {
			continue
		}
		if os.WriteFile(filepath.Join(tmp, base), f.Content(), 0o644) != nil {
			continue
		}
		protect(func() {
			df, err := datafile.OpenFile(tmp, uint32(id), datafile.DataFileSuffix, 0)
			if err != nil {
				return
			}
			defer df.Close()
			rd := df.NewReader()
			for {
				_, pos, err := rd.NextLogRecord()
				if err != nil {
					return
				}
				out[n] = append(out[n], int64(pos.BlockID)*blockSz+int64(pos.Offset))
			}
		})
		_ = os.Remove(filepath.Join(tmp, base))
	}
	return out
}

func applyDamage(tree *vos.Tree, d Damage) (*vos.Tree, bool) {
	t := tree.Clone()
	f := t.File(d.File)
	if f == nil || d.Off < 0 || d.Off >= f.Size {
		return nil, false
	}
	f.Data = f.Content()
	switch d.Kind {
	case "flip":
		f.Data[d.Off] ^= 1 << uint(d.Bit)
	case "overwrite", "garbage":
		rng := vrt.NewRand(d.Seed)
		changed := false
		for i := int64(0); i < int64(d.Len) && d.Off+i < f.Size; i++ {
			b := byte(rng.Uint64())
			if b != f.Data[d.Off+i] {
				changed = true
			}
			f.Data[d.Off+i] = b
		}
		if !changed {
			return nil, false
		}
	case "zero":
		changed := false
		for i := int64(0); i < int64(d.Len) && d.Off+i < f.Size; i++ {
			if f.Data[d.Off+i] != 0 {
				changed = true
			}
			f.Data[d.Off+i] = 0
		}
		// a zero run reaching the end of its block is indistinguishable from pre-extension by design: not injected
		end := d.Off + int64(d.Len)
		if !changed || end >= f.Size || end/blockSz != d.Off/blockSz {
			return nil, false
		}
		tailZero := true
		for i := end; i < f.Size && i/blockSz == d.Off/blockSz; i++ {
			if f.Data[i] != 0 {
				tailZero = false
				break
			}
		}
		if tailZero {
			return nil, false
		}
	case "truncate":
		f.Data = f.Data[:d.Off]
		f.Size = d.Off
	case "transplant":
		if d.Src < 0 || d.Len <= 0 || d.Src+int64(d.Len) > f.Size || d.Off+int64(d.Len) > f.Size {
			return nil, false
		}
		if string(f.Data[d.Src:d.Src+int64(d.Len)]) == string(f.Data[d.Off:d.Off+int64(d.Len)]) {
			return nil, false
		}
		copy(f.Data[d.Off:d.Off+int64(d.Len)], append([]byte(nil), f.Data[d.Src:d.Src+int64(d.Len)]...))
	default:
		return nil, false
	}
	return t, true
}

type damageRead struct {
	keys    []string
	got     map[string][]byte
	errs    map[string]string
	foldErr string
	foldBad string
}

// tryDamage applies one stored-byte fault and judges everything the engine then serves.
func (ctx *crashCtx) tryDamage(tree *vos.Tree, cfg Config, d Damage) {
	r := ctx.r
	if d.Live {
		ctx.tryDamageLive(tree, cfg, d)
		return
	}
	if r.C.Damage == nil && ctx.images%3 == 0 {
		ctx.tryDamageLive(tree, cfg, d)
		if r.violated() || r.Infra != "" {
			return
		}
	}
	t, ok := applyDamage(tree, d)
	if !ok {
		return
	}
	r.inc("fault_damage_" + d.Kind)
	final := r.States[len(r.States)-1]
	rd := &damageRead{got: map[string][]byte{}, errs: map[string]string{}}
	rec := ctx.recoverDamaged(t, cfg, rd)
	defer os.RemoveAll(rec.root)
	desc := fmt.Sprintf("%s of %s at offset %d", d.Kind, d.File, d.Off)
	if d.Kind == "flip" {
		desc += fmt.Sprintf(" bit %d", d.Bit)
	} else if d.Len > 0 {
		desc += fmt.Sprintf(" length %d", d.Len)
	}
	if d.Kind == "transplant" {
		desc += fmt.Sprintf(" (the record at offset %d copied over it)", d.Src)
	}
	pin := func() { dd := d; r.C.Damage = &dd }
	if rec.oracle == "infra" {
		r.Infra = rec.failure
		return
	}
	if rec.failure != "" {
		pin()
		o := strings.Replace(rec.oracle, "recovery", "damage", 1)
		r.fail(o, d.Kind, "%s: %s", desc, rec.failure)
		return
	}
	if rec.openErr != nil {
		r.inc("damage_detected_at_open")
		return
	}
	// per-key verdict: the originally written value, or an error
	allOK := true
	var firstBad string
	seen := map[string]bool{}
	for _, k := range rd.keys {
		seen[k] = true
		if !r.Ever[k] {
			pin()
			r.fail("damage-unknown-key", d.Kind, "%s: ListKeys returns key %q, which was never written", desc, k)
			return
		}
	}
	everSorted := make([]string, 0, len(r.Ever))
	for k := range r.Ever {
		everSorted = append(everSorted, k)
	}
	sort.Strings(everSorted) // the first bad key named in the report must not depend on map order
	for _, k := range everSorted {
		if e, bad := rd.errs[k]; bad {
			_ = e
			continue // an error is an accepted outcome
		}
		got, served := rd.got[k]
		want, present := final[k]
		if !served {
			continue
		}
		if !present || !beq(got, want) {
			allOK = false
			if firstBad == "" {
				firstBad = k
			}
		}
	}
	if allOK && rd.foldBad == "" {
		r.inc("damage_harmless_or_detected")
		return
	}
	// damage at the end of the log is indistinguishable from a torn tail: the whole view may be an earlier state
	view := State{}
	for k, v := range rd.got {
		view[k] = v
	}
	if len(rd.errs) == 0 {
		for j := len(r.States) - 1; j >= 0; j-- {
			if stateEq(view, r.States[j]) && sameKeys(rd.keys, r.States[j]) {
				r.inc("damage_exposed_prefix_state")
				return
			}
		}
	}
	pin()
	if firstBad == "" {
		r.fail("damage-fold-wrong-data", d.Kind, "%s: %s", desc, rd.foldBad)
		return
	}
	got := rd.got[firstBad]
	class := "foreign-bytes"
	if r.Written[firstBad][string(got)] {
		class = "stale-value" // bytes that were once written for this key (possibly superseded inside their own batch)
	}
	kindSig := d.Kind
	if d.Kind == "truncate" && strings.HasSuffix(d.File, ".data") {
		// a cut exactly between two records of a file that is not the newest one leaves a well-formed shorter file:
		// no chunk-level checksum can notice it (recorded as a known finding, identified by this signature)
		newest := ""
		for n := range tree.Names {
			if isDBData(n) && n > newest {
				newest = n
			}
		}
		boundary := d.Off == 0
		for _, st := range recordStarts(r, tree, []string{d.File})[d.File] {
			if st == d.Off {
				boundary = true
			}
		}
		if boundary && d.File != newest {
			kindSig = "truncate-at-record-boundary-of-older-file"
		}
	}
	r.fail("damage-served-wrong-data", kindSig+":"+class, "%s: Get(%q) = %s without error, the value written is %s, and the view as a whole is no earlier state of the history (%s)",
		desc, firstBad, show(got), show(final[firstBad]), class)
}

func stateEq(a, b State) bool {
	if len(a) != len(b) {
		return false
	}
	for k, v := range a {
		w, ok := b[k]
		if !ok || !beq(v, w) {
			return false
		}
	}
	return true
}

func sameKeys(keys []string, s State) bool {
	if len(keys) != len(s) {
		return false
	}
	for _, k := range keys {
		if _, ok := s[k]; !ok {
			return false
		}
	}
	return true
}

// recoverDamaged is recoverImage with a tolerant reader: every Get may fail, nothing may panic.
func (ctx *crashCtx) recoverDamaged(t *vos.Tree, cfg Config, rd *damageRead) *recovery {
	return ctx.recoverImageWith(t, cfg, func(db *kv.DB, rec *recovery) {
		ctx.readTolerant(db, rec, rd)
	}, func(root string, rec *recovery) {
		ctx.scanTolerant(t, root, rec)
	})
}

// readTolerant reads everything through ListKeys, Get and Fold; every call may fail, nothing may panic.
func (ctx *crashCtx) readTolerant(db *kv.DB, rec *recovery, rd *damageRead) {
	r := ctx.r
	{
		p, fr := protect(func() {
			for _, k := range db.ListKeys() {
				rd.keys = append(rd.keys, string(k))
			}
			all := map[string]bool{}
			for k := range r.Ever {
				all[k] = true
			}
			for _, k := range rd.keys {
				all[k] = true
			}
			ks := make([]string, 0, len(all))
			for k := range all {
				ks = append(ks, k)
			}
			sort.Strings(ks)
			for _, k := range ks {
				v, err := db.Get([]byte(k))
				if err != nil {
					if !errors.Is(err, kv.ErrKeyNotFound) || r.Ever[k] {
						rd.errs[k] = errName(err)
					}
					if errors.Is(err, kv.ErrKeyNotFound) {
						delete(rd.errs, k)
					}
					continue
				}
				rd.got[k] = v
			}
			final := r.States[len(r.States)-1]
			ferr := db.Fold(func(k, v []byte) bool {
				if g, ok := rd.got[string(k)]; ok && !beq(g, v) {
					rd.foldBad = fmt.Sprintf("Fold visits (%q, %s) but Get returned %s", k, show(v), show(g))
				} else if !ok {
					if w, ok := final[string(k)]; !ok || !beq(w, v) {
						rd.foldBad = fmt.Sprintf("Fold visits (%q, %s), the value written is %s", k, show(v), show(w))
					}
				}
				return true
			})
			if ferr != nil {
				rd.foldErr = errName(ferr)
			}
		})
		if p != "" {
			rec.failure = fmt.Sprintf("reading the damaged database: %s (in %s)", clip(p, 300), fr)
			rec.oracle = "damage-panic"
		}
	}
}

// scanTolerant: the sequential reader over every data and hint file of the damaged directory must not panic either.
func (ctx *crashCtx) scanTolerant(t *vos.Tree, root string, rec *recovery) {
	{
		for _, n := range t.SortedNames() { // engine calls follow: never in map order
			if !strings.HasPrefix(n, "db/") {
				continue
			}
			base := filepath.Base(n)
			var suffix string
			switch {
			case strings.HasSuffix(base, ".data"):
				suffix = datafile.DataFileSuffix
			case strings.HasSuffix(base, ".hint"):
				suffix = datafile.HintFileSuffix
			default:
				continue
			}
			id, err := strconv.ParseUint(strings.TrimSuffix(base, suffix), 10, 32)
			if err != nil {
				continue
			}
			p, fr := protect(func() {
				df, err := datafile.OpenFile(filepath.Join(root, "db"), uint32(id), suffix, 0)
				if err != nil {
					return
				}
				defer df.Close()
				rdr := df.NewReader()
				for i := 0; i < 100000; i++ {
					var err error
					if suffix == datafile.HintFileSuffix {
						_, _, err = rdr.NextHintRecord()
					} else {
						_, _, err = rdr.NextLogRecord()
					}
					if err == io.EOF || err != nil {
						return
					}
				}
			})
			if p != "" && rec.failure == "" {
				rec.failure = fmt.Sprintf("sequential reader over %s: %s (in %s)", n, clip(p, 300), fr)
				rec.oracle = "damage-panic"
			}
		}
	}
}

// tryDamageLive alters the bytes of a data file while the database is open on it (standard I/O; a mapped file cannot
// be cut under its mapping): the index was built from the undamaged files, so every Get goes through the
// read-by-position path into the damaged bytes and must return the value written or fail.
func (ctx *crashCtx) tryDamageLive(tree *vos.Tree, cfg Config, d Damage) {
	r := ctx.r
	if cfg.IO != 0 || !strings.HasSuffix(d.File, ".data") || !strings.HasPrefix(d.File, "db/") {
		return
	}
	t, ok := applyDamage(tree, d)
	if !ok {
		return
	}
	f := t.File(d.File)
	if f == nil {
		return
	}
	content := f.Content()
	final := r.States[len(r.States)-1]
	rd := &damageRead{got: map[string][]byte{}, errs: map[string]string{}}
	pristine := tree.File(d.File).Content()
	skipped := false
	rec := ctx.recoverImageWith(tree, cfg, func(db *kv.DB, rec *recovery) {
		// Open may have replaced the file (adoption of a finished merge): the damage was computed for the bytes of
		// the image, so it applies only if those are still the bytes on disk
		if cur, err := os.ReadFile(filepath.Join(rec.root, d.File)); err != nil || string(cur) != string(pristine) {
			skipped = true
			return
		}
		if err := os.WriteFile(filepath.Join(rec.root, d.File), content, 0o644); err != nil {
			rec.failure, rec.oracle = "damaging the open file: "+err.Error(), "infra"
			return
		}
		ctx.readTolerant(db, rec, rd)
	}, nil)
	defer os.RemoveAll(rec.root)
	r.inc("fault_damage_live_" + d.Kind)
	desc := fmt.Sprintf("%s of %s at offset %d while the database is open", d.Kind, d.File, d.Off)
	if d.Kind == "flip" {
		desc += fmt.Sprintf(" (bit %d)", d.Bit)
	} else if d.Len > 0 {
		desc += fmt.Sprintf(" (length %d)", d.Len)
	}
	if d.Kind == "transplant" {
		desc += fmt.Sprintf(" (the record at offset %d copied over it)", d.Src)
	}
	pin := func() { dd := d; dd.Live = true; r.C.Damage = &dd }
	if rec.oracle == "infra" {
		r.Infra = rec.failure
		return
	}
	if rec.failure != "" {
		pin()
		r.fail(strings.Replace(rec.oracle, "recovery", "damage", 1), "live:"+d.Kind, "%s: %s", desc, rec.failure)
		return
	}
	if rec.openErr != nil || skipped {
		return // the undamaged image does not open, or Open replaced the file: not this check's business
	}
	ks := make([]string, 0, len(r.Ever))
	for k := range r.Ever {
		ks = append(ks, k)
	}
	sort.Strings(ks)
	for _, k := range ks {
		if _, bad := rd.errs[k]; bad {
			r.inc("damage_live_detected")
			continue
		}
		got, served := rd.got[k]
		want, present := final[k]
		if !served {
			continue // key-not-found is an error too: nothing wrong was served
		}
		if !present || !beq(got, want) {
			pin()
			class := "foreign-bytes"
			if r.Written[k][string(got)] {
				class = "stale-value" // bytes that were once written for this very key: no reader can tell (no sequence numbers)
			}
			r.fail("damage-live-served-wrong-data", d.Kind+":"+class, "%s: Get(%q) = %s without error, the value written is %s (%s)", desc, k, show(got), show(want), class)
			if r.violated() {
				return
			}
		}
	}
	if rd.foldBad != "" {
		pin()
		r.fail("damage-live-fold-wrong-data", d.Kind, "%s: %s", desc, rd.foldBad)
		return
	}
	r.inc("damage_live_images")
}

// fullChunkStarts walks a file of single-chunk records (a hint file) by its chunk headers and returns the offsets
// at which chunks start; it stops at the first thing that is not a complete FULL chunk.
func fullChunkStarts(data []byte) []int64 {
	var out []int64
	off := int64(0)
	for off+7 <= int64(len(data)) {
		if blockSz-off%blockSz < 7 {
			off += blockSz - off%blockSz
			continue
		}
		n := int64(data[off+4]) | int64(data[off+5])<<8
		typ := data[off+6]
		if typ != 0 || n == 0 || off+7+n > int64(len(data)) || (off+7+n-1)/blockSz != off/blockSz {
			break
		}
		out = append(out, off)
		off += 7 + n
	}
	return out
}
