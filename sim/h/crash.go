package h

import (
	"fmt"
	"os"
	"path/filepath"
	"sort"
	"strings"
	"time"

	kv "github.com/XiXi-2024/xixi-kv"
	"github.com/XiXi-2024/xixi-kv/vsim/vclock"
	"github.com/XiXi-2024/xixi-kv/vsim/vos"
	"github.com/XiXi-2024/xixi-kv/vsim/vrt"
	"github.com/XiXi-2024/xixi-kv/vsim/vsync"
)

func init() {
	arms["crash"] = runCrash
}

// crashCtx is what the base run leaves behind for the enumeration of crash images.
type crashCtx struct {
	r             *Runner
	journal       []vos.Entry
	cfgAt         []Config // configuration in force while operation i ran (index i+1; index 0 = initial Open)
	first         []int    // per mutation j: first journal index of its operation (-1 if it issued no I/O)
	last          []int    // per mutation j: last journal index of its operation
	kinds         []string
	imgRoot       string
	rng           *vrt.Rand
	images        int
	followBatches int   // batches to commit in the follow-up after a recovery (C04)
	clockBack     int64 // when > 0: the recovery starts with the wall clock stepped back to this instant
}

// runCrash executes the workload once (fault-free, journalled), then rebuilds the directory as it would be after
// a process crash at every journal position, and after power loss (unsynced tails cut) at a seeded subset, and
// runs the real Open on each image.
func runCrash(r *Runner) {
	r.extra["cfgTrack"] = []Config{r.C.Cfg}
	r.RunSeq()
	if r.violated() {
		return
	}
	ctx := &crashCtx{r: r, journal: r.FS.Journal, rng: vrt.NewRand(vrt.Mix(r.C.Seed, 0xc4a5))}
	ctx.imgRoot = filepath.Join(ScratchBase, fmt.Sprintf("vsim-img-%d", os.Getpid()))
	defer os.RemoveAll(ctx.imgRoot)
	ops := r.C.Clients[0]
	// configuration in force per operation
	cur := r.C.Cfg
	ctx.cfgAt = append(ctx.cfgAt, cur)
	for i := range ops {
		ctx.kinds = append(ctx.kinds, ops[i].K)
		ctx.cfgAt = append(ctx.cfgAt, cur) // in force while op i runs (a restart switches after its Close)
		if ops[i].K == "restart" && ops[i].Cfg != nil {
			cur = *ops[i].Cfg
		}
	}
	ctx.cfgAt = append(ctx.cfgAt, cur)
	// journal extent of every mutation
	ctx.first = make([]int, len(r.MutOp))
	ctx.last = make([]int, len(r.MutOp))
	opFirst := map[int]int{}
	opLast := map[int]int{}
	for i := range ctx.journal {
		e := &ctx.journal[i]
		if e.Kind == vos.KMark {
			continue
		}
		if _, ok := opFirst[e.Op]; !ok {
			opFirst[e.Op] = i
		}
		opLast[e.Op] = i
	}
	for j, m := range r.MutOp {
		if f, ok := opFirst[m]; ok && j > 0 {
			ctx.first[j], ctx.last[j] = f, opLast[m]
		} else {
			ctx.first[j], ctx.last[j] = -1, -1
		}
	}
	if r.C.Crash != nil {
		if !ctx.pinFits(r.C.Crash) {
			return
		}
		ctx.checkImage(r.C.Crash.Pos, r.C.Crash.Cut, r.C.Crash.Power, r.C.Crash.Pos2-1)
		return
	}
	powerPct := r.C.PowerPct
	cuts := r.C.Cuts
	for k := 0; k <= len(ctx.journal); k++ {
		if k > 0 && !ctx.journal[k-1].Kind.Mutating() {
			continue // same image as the previous position
		}
		if !ctx.positionInScope(k) {
			continue
		}
		ctx.checkImage(k, nil, false, -1)
		if r.violated() {
			return
		}
		// power-loss cuts for a seeded share of the positions - and always right after a directory operation (rename,
		// remove, remove-all): that is where a file that was never flushed becomes the only copy of something
		forced := false
		if k > 0 && powerPct > 0 {
			switch ctx.journal[k-1].Kind {
			case vos.KRename, vos.KRemove, vos.KRemoveAll:
				forced = true
			}
		}
		if powerPct > 0 && (forced || ctx.rng.Intn(100) < powerPct) {
			tree := vos.Replay(nil, ctx.journal, k, nil)
			for c := 0; c < cuts; c++ {
				cut := ctx.genCut(tree, c)
				if cut == nil {
					break
				}
				ctx.checkImage(k, cut, true, -1)
				if r.violated() {
					return
				}
			}
		}
	}
	r.add("crash_images", int64(ctx.images))
}

// positionInScope restricts the enumeration for C07 to positions inside Merge and inside restarts that follow a
// merge (the adoption), which is what that property quantifies over.
func (ctx *crashCtx) positionInScope(k int) bool {
	if ctx.r.C.Prop != "C07" {
		return true
	}
	if k == 0 {
		return false
	}
	op := ctx.journal[k-1].Op
	if op < 0 || op >= len(ctx.kinds) {
		return false
	}
	if ctx.kinds[op] == "merge" {
		return true
	}
	if ctx.kinds[op] == "restart" {
		for i := op - 1; i >= 0; i-- {
			if ctx.kinds[i] == "merge" {
				return true
			}
			if ctx.kinds[i] == "restart" {
				return false
			}
		}
	}
	return false
}

// genCut draws a power-loss cut for tree (the image at the crash position): for every file with unsynced data
// entries a number of bytes of that unsynced tail survives. variant biases the draw.
func (ctx *crashCtx) genCut(tree *vos.Tree, variant int) map[int]int {
	cut := map[int]int{}
	any := false
	inos := make([]int, 0, len(tree.Inodes))
	for ino := range tree.Inodes {
		inos = append(inos, ino)
	}
	sort.Ints(inos)
	for _, ino := range inos {
		f := tree.Inodes[ino]
		if len(f.Unsynced) == 0 {
			continue
		}
		total := 0
		for _, idx := range f.Unsynced {
			total += len(ctx.journal[idx].Data)
		}
		if total == 0 {
			continue
		}
		any = true
		lastLen := len(ctx.journal[f.Unsynced[len(f.Unsynced)-1]].Data)
		var keep int
		mode := variant
		if variant >= 2 {
			mode = 2 + ctx.rng.Intn(5)
		}
		switch mode {
		case 0: // everything unsynced is lost
			keep = 0
		case 1: // torn inside the last write
			keep = total - lastLen + ctx.rng.Intn(lastLen+1)
		case 2: // inside the chunk header of the last write
			keep = total - lastLen + ctx.rng.Intn(min(lastLen, 7)+1)
		case 3: // file ends 1..7 bytes before a block boundary
			size := int(f.Size)
			durable := size - total
			target := (size/blockSz)*blockSz - ctx.rng.Range(1, 7)
			if target < durable {
				target = durable + ctx.rng.Intn(total+1)
			}
			keep = target - durable
		case 4: // a whole number of writes survives
			n := ctx.rng.Intn(len(f.Unsynced) + 1)
			keep = 0
			for _, idx := range f.Unsynced[:n] {
				keep += len(ctx.journal[idx].Data)
			}
		case 5: // nothing lost in this file (but maybe in another)
			keep = total
		default:
			keep = ctx.rng.Intn(total + 1)
		}
		if keep < 0 {
			keep = 0
		}
		if keep > total {
			keep = total
		}
		for _, idx := range f.Unsynced {
			n := len(ctx.journal[idx].Data)
			if keep >= n {
				keep -= n
				continue
			}
			cut[idx] = keep
			keep = 0
		}
	}
	if !any {
		return nil
	}
	return cut
}

// allowed computes the interval [lo, hi] of acknowledged-history prefixes the image may expose.
func (ctx *crashCtx) allowed(k int, cut map[int]int, power bool) (lo, hi int) {
	r := ctx.r
	curOp := -2
	for i := k - 1; i >= 0; i-- {
		if ctx.journal[i].Kind != vos.KMark {
			curOp = ctx.journal[i].Op
			break
		}
	}
	// marks pin operation boundaries: a mark with code i at or before k means operation i has returned
	returned := -2
	for i := k - 1; i >= 0; i-- {
		if ctx.journal[i].Kind == vos.KMark && ctx.journal[i].Off >= 0 {
			returned = int(ctx.journal[i].Off)
			break
		}
	}
	hi = 0
	for j := 1; j < len(r.MutOp); j++ {
		if r.MutOp[j] <= curOp || r.MutOp[j] <= returned {
			hi = j
		}
	}
	acked := func(j int) bool {
		if r.MutOp[j] <= returned || r.MutOp[j] < curOp {
			return true
		}
		return ctx.last[j] >= 0 && ctx.last[j] < k // all of its I/O has been issued
	}
	if !power {
		lo = hi
		if hi > 0 && !acked(hi) {
			lo = hi - 1
		}
		return
	}
	// power loss: every acknowledged mutation whose bytes are all covered by a sync of their file must survive
	lost := map[int]bool{} // journal indices (partly) lost
	for idx := range cut {
		lost[idx] = true
	}
	// entries after a cut one in the same file are lost entirely (cut maps them to 0) — already in cut.
	// Which data entries are unsynced at k at all (candidates for loss under *some* cut)?
	tree := vos.Replay(nil, ctx.journal, k, nil)
	unsynced := map[int]bool{}
	for _, f := range tree.Inodes {
		for _, idx := range f.Unsynced {
			unsynced[idx] = true
		}
	}
	lo = 0
	for j := 1; j <= hi; j++ {
		if !acked(j) {
			continue
		}
		// "every mutation acknowledged before the last successful sync of its file": a mutation that wrote nothing
		// (e.g. the delete of an absent key) has no file and forces nothing
		durable, hasData := true, false
		for i := ctx.first[j]; i >= 0 && i <= ctx.last[j]; i++ {
			e := &ctx.journal[i]
			if e.Op == r.MutOp[j] && (e.Kind == vos.KWrite || e.Kind == vos.KMWrite) && isDBData(e.Path) {
				hasData = true
				if unsynced[i] {
					durable = false
					break
				}
			}
		}
		if durable && hasData {
			lo = j
		}
		// C04: a batch created with the Sync option is durable once Commit has returned, whatever was synced when
		// (a batch that staged nothing writes nothing and so has nothing to make durable)
		if op := r.MutOp[j]; hasData && op >= 0 && op < len(ctx.kinds) && ctx.kinds[op] == "batch" && r.C.Clients[0][op].Flag &&
			(op <= returned || op < curOp) {
			lo = j
			r.inc("sync_batch_durability_demanded")
		}
	}
	return
}

// recoverImage materialises tree under a fresh root, runs the real Open + dump (+ optional follow-up) under the
// scheduler and returns what happened.
type recovery struct {
	openErr error
	failure string // panic / hang / inconsistent dump
	dump    *Dump
	fs      *vos.FS
	root    string
	oracle  string
}

func (ctx *crashCtx) recoverImage(tree *vos.Tree, cfg Config, journalOn bool, follow func(db *kv.DB, rec *recovery) *kv.DB) *recovery {
	r := ctx.r
	return ctx.recoverGeneric(tree, cfg, journalOn, nil, func(db *kv.DB, rec *recovery) *kv.DB {
		d, f := dumpDB(db, r.Ever)
		if f != "" {
			rec.failure = "dump after recovery: " + f
			rec.oracle = "recovery-dump-inconsistent"
			return db
		}
		rec.dump = d
		if follow != nil {
			db = follow(db, rec)
		}
		return db
	})
}

// recoverImageWith: pre runs on the materialised directory before Open, body after a successful Open.
func (ctx *crashCtx) recoverImageWith(tree *vos.Tree, cfg Config, body func(db *kv.DB, rec *recovery), pre func(root string, rec *recovery)) *recovery {
	return ctx.recoverGeneric(tree, cfg, false, pre, func(db *kv.DB, rec *recovery) *kv.DB {
		body(db, rec)
		return db
	})
}

func (ctx *crashCtx) recoverGeneric(tree *vos.Tree, cfg Config, journalOn bool, pre func(root string, rec *recovery), body func(db *kv.DB, rec *recovery) *kv.DB) *recovery {
	r := ctx.r
	ctx.images++
	root := filepath.Join(ctx.imgRoot, fmt.Sprintf("i%d", ctx.images))
	_ = os.RemoveAll(root)
	// only the database and its merge directory are part of the crash image
	img := vos.NewTree()
	for n, ino := range tree.Names {
		if strings.HasPrefix(n, "db/") || strings.HasPrefix(n, "db-merge/") {
			img.Names[n] = ino
			img.Inodes[ino] = tree.Inodes[ino]
		}
	}
	for d := range tree.Dirs {
		if d == "db" || d == "db-merge" {
			img.Dirs[d] = true
		}
	}
	img = img.Clone()
	for _, f := range img.Inodes {
		f.Unsynced = nil // whatever survived the crash is on the platter now
	}
	rec := &recovery{root: root}
	if err := vos.Materialize(img, root); err != nil {
		rec.failure = "materialize: " + err.Error()
		rec.oracle = "infra"
		return rec
	}
	fs := vos.NewFS(root, img)
	fs.JournalOn = journalOn
	fs.FreeSpace = 1 << 40
	rec.fs = fs
	vos.Cur = fs
	vsync.ResetPools() // a fresh process has empty pools
	if ctx.clockBack > 0 {
		// the wall clock was stepped back while the process was down (NTP, operator, VM restore): the new process
		// starts at the very instant the operation in flight at the crash had begun
		vclock.Jump(ctx.clockBack)
		r.inc("fault_clock_stepped_back")
	} else {
		vclock.Advance(2 * time.Second)
	}
	s := vrt.NewSched(vrt.Policy{Mode: "seq"})
	s.Go("recovery", func() {
		if pre != nil {
			pre(root, rec)
			if rec.failure != "" {
				return
			}
		}
		var db *kv.DB
		p, fr := protect(func() { db, rec.openErr = kv.Open(r.options(cfg, filepath.Join(root, "db"))) })
		if p != "" {
			rec.failure = fmt.Sprintf("Open: %s (in %s)", clip(p, 300), fr)
			rec.oracle = "recovery-panic"
			return
		}
		if rec.openErr != nil {
			return
		}
		db = body(db, rec)
		if db != nil {
			p, _ := protect(func() { _ = db.Close() })
			if p != "" && rec.failure == "" {
				rec.failure = "Close after recovery: " + clip(p, 200)
				rec.oracle = "recovery-panic"
			}
		}
	})
	s.Run()
	if s.Deadlock != "" {
		rec.failure = "recovery hangs: " + s.Deadlock
		rec.oracle = "recovery-hang"
	} else if s.Fatal != "" {
		rec.failure = "recovery: " + s.Fatal
		rec.oracle = "recovery-fatal"
	}
	fs.CloseAll()
	vos.Cur = nil
	return rec
}

func (ctx *crashCtx) describe(k int, cut map[int]int, power bool) string {
	what := "process crash"
	if power {
		what = "power loss"
	}
	at := "before the first I/O"
	if k > 0 {
		e := &ctx.journal[k-1]
		opk := "open"
		if e.Op >= 0 && e.Op < len(ctx.kinds) {
			opk = ctx.kinds[e.Op]
		} else if e.Op >= len(ctx.kinds) {
			opk = "close"
		}
		at = fmt.Sprintf("after journal entry %d (%s) of operation %d (%s)", k-1, e.String(), e.Op, opk)
	}
	s := fmt.Sprintf("%s %s", what, at)
	if power {
		var parts []string
		idxs := make([]int, 0, len(cut))
		for i := range cut {
			idxs = append(idxs, i)
		}
		sort.Ints(idxs)
		for _, i := range idxs {
			parts = append(parts, fmt.Sprintf("entry %d (%s) keeps %d of %d bytes", i, ctx.journal[i].Path, cut[i], len(ctx.journal[i].Data)))
		}
		s += "; " + strings.Join(parts, ", ")
	}
	return s
}

func (ctx *crashCtx) cfgAtPos(k int) Config {
	if k == 0 {
		return ctx.cfgAt[0]
	}
	op := ctx.journal[k-1].Op
	idx := op + 1
	if idx < 0 {
		idx = 0
	}
	if idx >= len(ctx.cfgAt) {
		idx = len(ctx.cfgAt) - 1
	}
	cfg := ctx.cfgAt[idx]
	// inside a restart, after the Close part the new configuration is the one doing the Open
	if op >= 0 && op < len(ctx.kinds) && ctx.kinds[op] == "restart" {
		if c := ctx.r.C.Clients[0][op].Cfg; c != nil {
			// has the reopening begun? (a create/open of the lock is not journalled; use the first KOpen/KCreate/KRename/KRemove after the closes)
			sawClose := false
			for i := 0; i < k; i++ {
				e := &ctx.journal[i]
				if e.Op != op {
					continue
				}
				if e.Kind == vos.KClose {
					sawClose = true
				} else if sawClose && (e.Kind == vos.KOpen || e.Kind == vos.KCreate || e.Kind == vos.KRename || e.Kind == vos.KRemove || e.Kind == vos.KRemoveAll || e.Kind == vos.KMap) {
					return *c
				}
			}
		}
	}
	return cfg
}

// checkImage evaluates one crash image (and, for C07, the second-level images of its recovery).
func (ctx *crashCtx) checkImage(k int, cut map[int]int, power bool, pos2 int) {
	r := ctx.r
	otherCfg := false
	tree := vos.Replay(nil, ctx.journal, k, cut)
	lo, hi := ctx.allowed(k, cut, power)
	cfg := ctx.cfgAtPos(k)
	if r.C.Prop != "C07" && (r.C.Crash == nil && ctx.images%5 == 3 || r.C.Crash != nil && r.C.Crash.OtherCfg) {
		// the crashed directory is reopened under another reader configuration (the other I/O back-end, another
		// index type and shard count): what C02 promises for a cleanly closed directory is no less needed after a crash
		cfg.IO ^= 1
		cfg.Index = cfg.Index%3 + 1
		cfg.Shards = []int{1, 3, 16}[k%3]
		otherCfg = true
		r.inc("fault_recovery_under_other_config")
	}
	r.judging = true
	r.step = k
	pin := func(p2 int) {
		r.C.Crash = &Crash{Pos: k, Cut: cut, Power: power, Pos2: p2 + 1, ClockBack: ctx.clockBack > 0 || (r.C.Crash != nil && r.C.Crash.ClockBack), OtherCfg: otherCfg}
	}
	kind := "process"
	if power {
		kind = "power"
		r.inc("fault_power_loss_images")
	} else {
		r.inc("fault_process_crash_images")
	}
	if len(cut) > 0 {
		torn := false
		for idx, keep := range cut {
			if keep > 0 && keep < len(ctx.journal[idx].Data) {
				torn = true
			}
		}
		if torn {
			r.inc("fault_torn_write_images")
		}
	}
	journalOn := r.C.Prop == "C07"
	if r.C.Prop == "C04" || r.C.Prop == "C03" {
		// batches the crashed process had begun since its last Open
		n := 0
		curOp := -1
		if k > 0 {
			curOp = ctx.journal[k-1].Op
		}
		for i := 0; i <= curOp && i < len(ctx.kinds); i++ {
			switch ctx.kinds[i] {
			case "restart":
				n = 0
			case "batch":
				n++
			}
		}
		if n < 1 {
			n = 1
		}
		if n > 4 {
			n = 4
		}
		ctx.followBatches = n
	}
	var follow func(db *kv.DB, rec *recovery) *kv.DB
	if r.C.Prop != "C07" && (power || ctx.images%3 == 0 || r.C.Crash != nil) {
		// the usability round doubles the cost of an image: always after power loss (appending behind a recovered
		// torn tail is the interesting case), every third process-crash image otherwise
		follow = ctx.usability(cfg)
	}
	ctx.clockBack = 0
	if (r.C.Prop == "C04" || r.C.Prop == "C03") && follow != nil && k > 0 && (r.C.Crash == nil && ctx.images%2 == 1 || r.C.Crash != nil && r.C.Crash.ClockBack) {
		if op := ctx.journal[k-1].Op; op >= 0 && op < len(r.opClock) {
			ctx.clockBack = r.opClock[op]
		}
	}
	clockBack := ctx.clockBack > 0
	rec := ctx.recoverImage(tree, cfg, journalOn, follow)
	ctx.clockBack = 0
	defer os.RemoveAll(rec.root)
	where := ctx.describe(k, cut, power)
	if clockBack {
		where += "; the wall clock was stepped back to the start of that operation while the process was down"
	}
	if otherCfg {
		where += "; reopened under " + cfg.String()
	}
	if rec.oracle == "infra" {
		r.Infra = rec.failure
		return
	}
	if rec.failure != "" {
		pin(-1)
		r.fail(rec.oracle, kind, "%s: %s", where, rec.failure)
		return
	}
	if rec.openErr != nil {
		pin(-1)
		io := "std"
		if cfg.IO == 1 {
			io = "mmap"
		}
		r.fail("recovery-open-error", kind+":"+io+":"+errName(rec.openErr), "%s: Open of the crash image fails: %v", where, rec.openErr)
		return
	}
	if !ctx.matchPrefix(rec.dump, lo, hi, where, kind, func() { pin(-1) }) {
		return
	}
	if r.C.Prop != "C07" {
		return
	}
	// ---- C07: "an unfinished merge is ignored" also by the next Merge: on an image that still holds a merge
	// directory, the recovered database deletes and rewrites keys, merges again and restarts twice (seeded change
	// S53: leftovers of the interrupted merge that the second merge built on)
	if tree.Dirs["db-merge"] && !power {
		rec4 := ctx.recoverImage(tree, cfg, false, ctx.mergeAgain(cfg))
		os.RemoveAll(rec4.root)
		if rec4.oracle == "infra" {
			r.Infra = rec4.failure
			return
		}
		if rec4.failure != "" {
			pin(-1)
			r.fail(rec4.oracle, kind, "%s: %s", where, rec4.failure)
			return
		}
	}
	// ---- C07: re-running an interrupted adoption, a second crash during the retry, a third clean Open ----
	j2 := rec.fs.Journal
	base := rec.fs.Base
	// (a) the recovered directory opened once more gives the same mapping
	final := vos.Replay(base, j2, len(j2), nil)
	rec2 := ctx.recoverImage(final, cfg, false, nil)
	os.RemoveAll(rec2.root)
	if !ctx.judgeSecond(rec2, lo, hi, where+"; then a clean Open, Close and another Open", kind, func() { pin(-1) }) {
		return
	}
	r.inc("reopen_after_recovery")
	// (b) second crash at every position of the recovery
	// second-level positions of interest: those of a recovery that re-ran an adoption (rename / remove / remove-all);
	// a recovery that ignored the merge directory is a plain Open, whose crash positions are C03's business
	adopting := false
	for i := range j2 {
		if j2[i].Kind == vos.KRename || j2[i].Kind == vos.KRemove || j2[i].Kind == vos.KRemoveAll {
			adopting = true
		}
	}
	for k2 := 1; k2 <= len(j2); k2++ {
		if pos2 >= 0 && k2 != pos2 {
			continue
		}
		if !j2[k2-1].Kind.Mutating() || (!adopting && pos2 < 0) {
			continue
		}
		t2 := vos.Replay(base, j2, k2, nil)
		rec3 := ctx.recoverImage(t2, cfg, false, nil)
		os.RemoveAll(rec3.root)
		r.inc("fault_second_crash_images")
		w := fmt.Sprintf("%s; then a second crash during the recovery after its entry %d (%s)", where, k2-1, j2[k2-1].String())
		if !ctx.judgeSecond(rec3, lo, hi, w, kind, func() { pin(k2) }) {
			return
		}
	}
}

func (ctx *crashCtx) judgeSecond(rec *recovery, lo, hi int, where, kind string, pin func()) bool {
	r := ctx.r
	if rec.oracle == "infra" {
		r.Infra = rec.failure
		return false
	}
	if rec.failure != "" {
		pin()
		r.fail(rec.oracle, kind, "%s: %s", where, rec.failure)
		return false
	}
	if rec.openErr != nil {
		pin()
		r.fail("recovery-open-error", kind+":"+errName(rec.openErr), "%s: Open fails: %v", where, rec.openErr)
		return false
	}
	return ctx.matchPrefix(rec.dump, lo, hi, where, kind, pin)
}

// matchPrefix checks that the dump equals S_j for some lo <= j <= hi.
func (ctx *crashCtx) matchPrefix(d *Dump, lo, hi int, where, kind string, pin func()) bool {
	r := ctx.r
	for j := hi; j >= lo; j-- {
		if diffState(d, r.States[j]) == "" {
			if j < hi {
				r.inc("recovered_shorter_prefix")
			}
			r.inc("images_ok")
			return true
		}
	}
	pin()
	// classify: an older prefix (acknowledged data lost), a newer one, or no prefix at all
	class := "not-a-prefix"
	for j := 0; j < len(r.States); j++ {
		if diffState(d, r.States[j]) == "" {
			if j < lo {
				class = "acknowledged-lost"
			} else {
				class = "from-the-future"
			}
			break
		}
	}
	r.fail("recovery-"+class, kind, "%s: the recovered mapping is not the state after any of the mutations %d..%d of the acknowledged history (%s); against the newest allowed state: %s",
		where, lo, hi, class, diffState(d, r.States[hi]))
	return false
}

// usability returns the follow-up run after a successful recovery: the recovered database must accept a write,
// serve it, and keep both the recovered mapping and the new write across a clean restart.
func (ctx *crashCtx) usability(cfg Config) func(db *kv.DB, rec *recovery) *kv.DB {
	r := ctx.r
	return func(db *kv.DB, rec *recovery) *kv.DB {
		key := []byte("~after-recovery")
		val := []byte(fmt.Sprintf("written-after-recovery-%d", ctx.images))
		var err error
		p, fr := protect(func() { err = db.Put(key, val) })
		if p != "" || err != nil {
			rec.failure = fmt.Sprintf("Put after recovery: %s %v (%s)", clip(p, 200), err, fr)
			rec.oracle = "recovery-unusable"
			return db
		}
		want := State(rec.dump.Vals).clone()
		want[string(key)] = val
		also := map[string]bool{string(key): true}
		if ctx.followBatches > 0 {
			// later history: as many fresh batches as the crashed process had begun since its last Open, so that a
			// later batch can never seal the leftovers of the crashed one (whatever identifies a batch)
			for b := 0; b < ctx.followBatches; b++ {
				var berr error
				bk1, bk2 := fmt.Sprintf("~after-recovery-batch-%d-a", b), fmt.Sprintf("~after-recovery-batch-%d-b", b)
				p, fr := protect(func() {
					wb := db.NewBatch(kv.BatchOptions{})
					if berr = wb.Put([]byte(bk1), []byte("A")); berr != nil {
						_ = wb.Commit()
						return
					}
					if berr = wb.Put([]byte(bk2), []byte("B")); berr != nil {
						_ = wb.Commit()
						return
					}
					berr = wb.Commit()
				})
				if p != "" || berr != nil {
					rec.failure = fmt.Sprintf("batch after recovery: %s %v (%s)", clip(p, 200), berr, fr)
					rec.oracle = "recovery-unusable"
					return db
				}
				want[bk1], want[bk2] = []byte("A"), []byte("B")
				also[bk1], also[bk2] = true, true
				vclock.Advance(3 * time.Millisecond)
			}
		}
		p, _ = protect(func() { err = db.Close() })
		if p != "" || err != nil {
			rec.failure = fmt.Sprintf("Close after recovery: %s %v", clip(p, 200), err)
			rec.oracle = "recovery-unusable"
			return nil
		}
		var db2 *kv.DB
		p, fr = protect(func() { db2, err = kv.Open(r.options(cfg, filepath.Join(rec.root, "db"))) })
		if p != "" || err != nil {
			rec.failure = fmt.Sprintf("clean restart after recovery plus one Put: Open: %s %v (%s)", clip(p, 200), err, fr)
			rec.oracle = "recovery-unusable"
			return nil
		}
		for k := range r.Ever {
			also[k] = true
		}
		d2, f := dumpDB(db2, also)
		if f != "" {
			rec.failure = "dump after recovery, one Put and a clean restart: " + f
			rec.oracle = "recovery-unusable"
			return db2
		}
		if diff := diffState(d2, want); diff != "" {
			rec.failure = "after recovery, further writes (a Put, fresh batches) and a clean restart the mapping is not the recovered one plus those writes: " + diff
			rec.oracle = "recovery-unusable"
			return db2
		}
		r.inc("usability_rounds")
		return db2
	}
}

// mergeAgain is the follow-up after recovering from a crash that left a merge directory behind: further deletes
// and overwrites, a second Merge, and two restarts; the mapping must be the recovered one plus those writes.
func (ctx *crashCtx) mergeAgain(cfg Config) func(db *kv.DB, rec *recovery) *kv.DB {
	r := ctx.r
	return func(db *kv.DB, rec *recovery) *kv.DB {
		want := State(rec.dump.Vals).clone()
		keys := append([]string(nil), rec.dump.Keys...)
		also := map[string]bool{}
		for k := range r.Ever {
			also[k] = true
		}
		var err error
		var what string
		p, fr := protect(func() {
			// every other recovered key is deleted, one is overwritten, one new key is written
			for i, k := range keys {
				if i%2 == 0 {
					if err = db.Delete([]byte(k)); err != nil {
						what = "Delete"
						return
					}
					delete(want, k)
				} else if i == 1 {
					v := []byte(fmt.Sprintf("rewritten-after-recovery-%d", ctx.images))
					if err = db.Put([]byte(k), v); err != nil {
						what = "Put"
						return
					}
					want[k] = v
				}
			}
			nk := "~after-recovery"
			if err = db.Put([]byte(nk), []byte("new")); err != nil {
				what = "Put"
				return
			}
			want[nk] = []byte("new")
			also[nk] = true
			if merr := db.Merge(); merr != nil {
				if !strings.Contains(merr.Error(), "merge abandoned") {
					err, what = merr, "Merge"
					return
				}
				r.inc("second_merge_abandoned")
			}
		})
		if p != "" || err != nil {
			rec.failure = fmt.Sprintf("after the recovery, %s: %s %v (%s)", what, clip(p, 200), err, fr)
			rec.oracle = "recovery-unusable"
			return db
		}
		for round := 1; round <= 2; round++ {
			p, _ = protect(func() { err = db.Close() })
			if p != "" || err != nil {
				rec.failure = fmt.Sprintf("Close after recovery and a second merge: %s %v", clip(p, 200), err)
				rec.oracle = "recovery-unusable"
				return nil
			}
			db = nil
			var db2 *kv.DB
			p, fr = protect(func() { db2, err = kv.Open(r.options(cfg, filepath.Join(rec.root, "db"))) })
			if p != "" || err != nil {
				rec.failure = fmt.Sprintf("restart %d after recovery, further writes and a second Merge: Open: %s %v (%s)", round, clip(p, 200), err, fr)
				rec.oracle = "recovery-unusable"
				return nil
			}
			db = db2
			d2, f := dumpDB(db, also)
			if f != "" {
				rec.failure = fmt.Sprintf("dump at restart %d after recovery and a second Merge: %s", round, f)
				rec.oracle = "recovery-unusable"
				return db
			}
			if diff := diffState(d2, want); diff != "" {
				rec.failure = fmt.Sprintf("after the recovery, deletes, overwrites, a second Merge and %d restart(s) the mapping is not the recovered one plus those writes: %s", round, diff)
				rec.oracle = "second-merge-after-crash"
				return db
			}
		}
		r.inc("second_merge_rounds")
		return db
	}
}

// pinFits checks that a pinned crash image is one the run can produce: the position exists and a power-loss cut
// only drops bytes that are not covered by a sync at that position. A pin that does not fit (the case was shrunk
// or the engine changed since the file was written) is no scenario at all: the run is abandoned, never judged.
func (ctx *crashCtx) pinFits(c *Crash) bool {
	r := ctx.r
	if c.Pos < 0 || c.Pos > len(ctx.journal) {
		r.Aborted = "the pinned crash position does not exist in this run"
		return false
	}
	if len(c.Cut) == 0 {
		return true
	}
	unsynced := map[int]bool{}
	for _, f := range vos.Replay(nil, ctx.journal, c.Pos, nil).Inodes {
		for _, idx := range f.Unsynced {
			unsynced[idx] = true
		}
	}
	for idx, keep := range c.Cut {
		if !unsynced[idx] || keep < 0 || keep > len(ctx.journal[idx].Data) {
			r.Aborted = fmt.Sprintf("the pinned power-loss cut drops bytes of journal entry %d, which are durable (or absent) at position %d of this run", idx, c.Pos)
			return false
		}
	}
	// tail loss only: within one file, everything behind a shortened entry is gone too
	for _, f := range vos.Replay(nil, ctx.journal, c.Pos, nil).Inodes {
		short := false
		for _, idx := range f.Unsynced {
			keep, cutHere := c.Cut[idx]
			full := len(ctx.journal[idx].Data)
			if short && (!cutHere || keep != 0) && full > 0 {
				r.Aborted = fmt.Sprintf("the pinned power-loss cut keeps bytes of journal entry %d behind a lost part of the same file", idx)
				return false
			}
			if cutHere && keep < full {
				short = true
			}
		}
	}
	return true
}
