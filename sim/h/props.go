package h

import (
	"bytes"
	"fmt"
	"io"
	"os"
	"path/filepath"
	"sort"
	"strconv"
	"strings"

	kv "github.com/XiXi-2024/xixi-kv"
	"github.com/XiXi-2024/xixi-kv/datafile"
	"github.com/XiXi-2024/xixi-kv/vsim/vos"
)

// ---------------------------------------------------------------------------------------------------------
// C13: sync policy, as invariants of the disk model evaluated at the return of every public call
// ---------------------------------------------------------------------------------------------------------

type syncTrack struct {
	next     int         // next journal index to scan
	unsynced map[int]int // ino -> unsynced bytes (all writers)
	lastData string      // newest data file seen so far in db/
}

func isDBData(p string) bool { return strings.HasPrefix(p, "db/") && strings.HasSuffix(p, ".data") }

// scanJournal advances the incremental unsynced-bytes tracker and checks the rotation rule: when a data file
// with a higher id is created, the previous newest data file has nothing unsynced.
func (r *Runner) scanJournal() {
	st, _ := r.extra["sync"].(*syncTrack)
	if st == nil {
		st = &syncTrack{unsynced: map[int]int{}}
		r.extra["sync"] = st
	}
	j := r.FS.Journal
	for ; st.next < len(j); st.next++ {
		e := &j[st.next]
		switch e.Kind {
		case vos.KWrite, vos.KMWrite:
			st.unsynced[e.Ino] += len(e.Data)
		case vos.KSync, vos.KMSync:
			st.unsynced[e.Ino] = 0
		case vos.KCreate:
			if isDBData(e.Path) {
				if st.lastData != "" && e.Path > st.lastData {
					// find the inode the previous newest file had at this moment: it cannot have been renamed
					// since (data files are only renamed into place by adoption, which precedes any create)
					if prev := r.FS.Live.File(st.lastData); prev != nil {
						if n := st.unsynced[prev.Ino]; n > 0 {
							r.fail("rotation-unsynced", "", "data file %s was created while %s still had %d unsynced bytes (a file must be flushed before the engine rotates away from it)", e.Path, st.lastData, n)
						}
						r.inc("rotations_checked")
					}
				}
				if e.Path > st.lastData {
					st.lastData = e.Path
				}
			}
		case vos.KRename:
			if isDBData(e.Path2) && e.Path2 > st.lastData {
				st.lastData = e.Path2
			}
		}
	}
}

// unsyncedOf returns the unsynced bytes of a model file, optionally only those written by operations for which
// pred(opIndex) holds, with the lenient padding allowance.
func (r *Runner) unsyncedOf(f *vos.MFile, pred func(op int) bool) (total int, entries int) {
	for _, idx := range f.Unsynced {
		e := &r.FS.Journal[idx]
		if pred != nil && !pred(e.Op) {
			continue
		}
		total += len(e.Data) - blockTailPadding(e)
		entries++
	}
	return
}

// blockTailPadding returns the number of leading bytes of a write that are block-tail padding: the write starts
// within 7 bytes of the end of a 32 KiB block (no room for a chunk header) and those bytes are zeros. Padding is
// not part of any record, and the engine's own sync accounting is in record bytes.
func blockTailPadding(e *vos.Entry) int {
	rem := int(blockSz - e.Off%blockSz)
	if rem > 7 || rem > len(e.Data) {
		return 0
	}
	for _, b := range e.Data[:rem] {
		if b != 0 {
			return 0
		}
	}
	return rem
}

func (r *Runner) checkAllSynced(when string) {
	r.FS.Mark(-2)
	for _, n := range r.FS.Live.SortedNames() {
		if !strings.HasPrefix(n, "db/") || !(strings.HasSuffix(n, ".data")) {
			continue
		}
		f := r.FS.Live.File(n)
		if tot, _ := r.unsyncedOf(f, nil); tot > 0 {
			r.fail("unsynced-after-"+strings.ToLower(when), "", "%s returned while %s still has %d unsynced bytes", when, n, tot)
			return
		}
	}
	r.inc("all_synced_checks")
}

// checkSyncPolicy evaluates the policy invariants after step i returned.
func (r *Runner) checkSyncPolicy(i int, op *Op) {
	r.scanJournal()
	if r.violated() || r.DB == nil {
		return
	}
	ops := r.C.Clients[0]
	plain := func(o int) bool { return o >= 0 && o < len(ops) && (ops[o].K == "put" || ops[o].K == "del") }
	switch op.K {
	case "put", "del":
		if r.Cfg.Sync == 1 { // Always
			for _, n := range r.dataFiles("db") {
				f := r.FS.Live.File(n)
				if tot, _ := r.unsyncedOf(f, plain); tot > 0 {
					r.fail("always-unsynced", "", "SyncStrategy Always: %s returned while %s has %d unsynced bytes written by Put/Delete", op.K, n, tot)
					return
				}
			}
			r.inc("always_checks")
		}
	case "sync":
		r.checkAllSynced("Sync")
	case "batch":
		if op.Flag {
			touched := map[int]string{}
			for idx := range r.FS.Journal {
				e := &r.FS.Journal[idx]
				if e.Op == i && (e.Kind == vos.KWrite || e.Kind == vos.KMWrite) && isDBData(e.Path) {
					touched[e.Ino] = e.Path
				}
			}
			tinos := make([]int, 0, len(touched))
			for ino := range touched {
				tinos = append(tinos, ino)
			}
			sort.Ints(tinos)
			for _, ino := range tinos {
				p := touched[ino]
				f := r.FS.Live.Inodes[ino]
				if f == nil {
					continue
				}
				if tot, _ := r.unsyncedOf(f, func(o int) bool { return o == i }); tot > 0 {
					r.fail("sync-batch-unsynced", "", "Commit of a Sync batch returned while %s has %d unsynced bytes of the batch (sealing record included)", p, tot)
					return
				}
			}
			r.inc("sync_batch_checks")
		}
	}
	if r.Cfg.Sync == 2 && r.Cfg.BPS > 0 { // Threshold: at any return
		total := 0
		for _, n := range r.dataFiles("db") {
			f := r.FS.Live.File(n)
			tot, _ := r.unsyncedOf(f, plain) // block-tail padding is not counted (record bytes: the engine's own unit)
			total += tot
		}
		if total >= int(r.Cfg.BPS) {
			r.fail("threshold-exceeded", "", "SyncStrategy Threshold(%d): after %s at least %d bytes appended by acknowledged Put/Delete are unflushed", r.Cfg.BPS, op.K, total)
			return
		}
		r.inc("threshold_checks")
	}
}

// ---------------------------------------------------------------------------------------------------------
// C17: Stat and space accounting recomputed from the files
// ---------------------------------------------------------------------------------------------------------

type scanRec struct {
	key   string
	typ   byte
	batch uint64
	fid   uint32
	size  uint32
	pos   *datafile.DataPos
	val   []byte
}

// scanDir scans the logical content of every data file below rel (e.g. "db") of the live model with the package's own
// sequential reader and returns the records per file id.
func (r *Runner) scanDir(rel string) (map[uint32][]scanRec, []uint32, error) {
	tmp := filepath.Join(ScratchBase, fmt.Sprintf("vsim-scan-%d", os.Getpid()))
	_ = os.RemoveAll(tmp)
	if err := os.MkdirAll(tmp, 0o755); err != nil {
		return nil, nil, err
	}
	defer os.RemoveAll(tmp)
	r.FS.Mark(-3) // harvest mapped stores
	out := map[uint32][]scanRec{}
	var ids []uint32
	for _, n := range r.dataFiles(rel) {
		f := r.FS.Live.File(n)
		base := filepath.Base(n)
		id64, err := strconv.ParseUint(strings.TrimSuffix(base, ".data"), 10, 32)
		if err != nil {
			continue
		}
		id := uint32(id64)
		if err := os.WriteFile(filepath.Join(tmp, base), logicalContent(f), 0o644); err != nil {
			return nil, nil, err
		}
		df, err := datafile.OpenFile(tmp, id, datafile.DataFileSuffix, 0)
		if err != nil {
			return nil, nil, err
		}
		rd := df.NewReader()
		for {
			rec, pos, err := rd.NextLogRecord()
			if err == io.EOF {
				break
			}
			if err != nil {
				_ = df.Close()
				return nil, nil, fmt.Errorf("scanning %s: %v", n, err)
			}
			out[id] = append(out[id], scanRec{key: string(rec.Key), typ: rec.Type, batch: rec.BatchID, fid: id, size: pos.Size, pos: pos, val: rec.Value})
		}
		_ = df.Close()
		ids = append(ids, id)
	}
	sort.Slice(ids, func(a, b int) bool { return ids[a] < ids[b] })
	return out, ids, nil
}

type liveRec struct {
	fid  uint32
	size uint32
	val  []byte
}

// replayRecords applies scanned records in log order (batches at their sealing record).
func replayRecords(recs map[uint32][]scanRec, ids []uint32) map[string]liveRec {
	live := map[string]liveRec{}
	pending := map[uint64][]scanRec{}
	apply := func(s scanRec) {
		if s.typ == datafile.LogRecordDeleted {
			delete(live, s.key)
		} else {
			live[s.key] = liveRec{s.fid, s.size, s.val}
		}
	}
	for _, id := range ids {
		for _, s := range recs[id] {
			if s.batch == 0 {
				if s.typ == datafile.LogRecordBatchFinished {
					continue
				}
				apply(s)
				continue
			}
			if s.typ == datafile.LogRecordBatchFinished {
				for _, p := range pending[s.batch] {
					apply(p)
				}
				delete(pending, s.batch)
			} else {
				pending[s.batch] = append(pending[s.batch], s)
			}
		}
	}
	return live
}

func (r *Runner) checkStatExact(when string) {
	if r.DB == nil {
		return
	}
	var st *kv.Stat
	if !r.call("Stat", func() { st = r.DB.Stat() }) {
		return
	}
	if st.KeyNum != len(r.M) {
		r.fail("stat-keynum", "", "%s: Stat.KeyNum = %d, the database holds %d keys", when, st.KeyNum, len(r.M))
		return
	}
	nfiles := len(r.dataFiles("db"))
	if st.DataFileNum != nfiles {
		r.fail("stat-datafilenum", "", "%s: Stat.DataFileNum = %d, the directory holds %d data files", when, st.DataFileNum, nfiles)
		return
	}
	if st.ReclaimableSize < 0 || st.ReclaimableSize > st.DiskSize {
		r.fail("stat-range", "", "%s: ReclaimableSize = %d, DiskSize = %d (want 0 <= Reclaimable <= Disk)", when, st.ReclaimableSize, st.DiskSize)
		return
	}
	recs, ids, err := r.scanDir("db")
	if err != nil {
		old := r.judging
		r.judging = false
		r.fail("scan-error", "", "%s: %v", when, err)
		r.judging = old
		return
	}
	live := replayRecords(recs, ids)
	var sum int64
	for _, l := range live {
		sum += int64(l.size)
	}
	if len(live) != len(r.M) {
		// the files themselves disagree with the model: not an accounting problem
		old := r.judging
		r.judging = false
		r.fail("scan-mismatch", "", "%s: files hold %d live keys, model %d", when, len(live), len(r.M))
		r.judging = old
		return
	}
	if st.DiskSize-st.ReclaimableSize != sum {
		r.fail("stat-live-bytes", "", "%s: DiskSize-ReclaimableSize = %d-%d = %d, live records occupy %d bytes", when, st.DiskSize, st.ReclaimableSize, st.DiskSize-st.ReclaimableSize, sum)
		return
	}
	r.inc("stat_checks")
	r.checkSizeLimit(when, recs, ids)
}

// checkSizeLimit: a data file exceeds the DataFileSize in force when it was written only when it holds a single
// record (plus, for a batch, its sealing record) that alone exceeds the limit.
func (r *Runner) checkSizeLimit(when string, recs map[uint32][]scanRec, ids []uint32) {
	limits := r.trackLimits()
	r.sizeLimitVerdict(when, recs, ids, limits)
}

// trackLimits brings the per-file "limit in force when written" up to date with the journal, under the configuration
// currently in force (so it must also run right before a step switches configurations after having written).
func (r *Runner) trackLimits() map[int]int64 {
	limits, _ := r.extra["limits"].(map[int]int64)
	if limits == nil {
		limits = map[int]int64{}
		r.extra["limits"] = limits
	}
	seen, _ := r.extra["limitsNext"].(int)
	for ; seen < len(r.FS.Journal); seen++ {
		e := &r.FS.Journal[seen]
		// the limit in force when a file was written: the largest DataFileSize under which anything was appended
		// (this is evaluated after every step, so r.Cfg is the configuration the new entries were written under)
		if (e.Kind == vos.KCreate || e.Kind == vos.KWrite || e.Kind == vos.KMWrite) && strings.HasSuffix(e.Path, ".data") {
			if r.Cfg.FileSize > limits[e.Ino] {
				limits[e.Ino] = r.Cfg.FileSize
			}
		}
	}
	r.extra["limitsNext"] = seen
	return limits
}

func (r *Runner) sizeLimitVerdict(when string, recs map[uint32][]scanRec, ids []uint32, limits map[int]int64) {
	for _, id := range ids {
		n := fmt.Sprintf("db/%09d.data", id)
		f := r.FS.Live.File(n)
		if f == nil {
			continue
		}
		limit, ok := limits[f.Ino]
		if !ok {
			continue
		}
		logical := int64(len(logicalContent(f)))
		if logical <= limit {
			continue
		}
		data, seals := 0, 0
		var first, seal scanRec
		for _, s := range recs[id] {
			if s.typ != datafile.LogRecordBatchFinished {
				if data == 0 {
					first = s
				}
				data++
			} else {
				seals++
				seal = s
			}
		}
		if data == 0 && seals == 1 && int64(seal.size) > limit {
			// a limit smaller than a sealing record: that record is then the single record that alone exceeds it
			r.inc("oversized_files_ok")
			continue
		}
		if data != 1 || int64(first.size) <= limit {
			r.fail("file-over-limit", "", "%s: %s holds %d bytes (limit %d when written) in %d data records (first record %d bytes): a file may exceed the limit only for a single record that alone exceeds it", when, n, logical, limit, data, first.size)
			return
		}
		r.inc("oversized_files_ok")
	}
}

// ---------------------------------------------------------------------------------------------------------
// C18: hint file fidelity, checked after a successful Merge and before adoption
// ---------------------------------------------------------------------------------------------------------

func (r *Runner) checkHint() {
	r.FS.Mark(-4)
	hintName := "db-merge/000000000.hint"
	hf := r.FS.Live.File(hintName)
	if hf == nil {
		r.fail("hint-missing", "", "Merge succeeded but %s does not exist", hintName)
		return
	}
	tmp := filepath.Join(ScratchBase, fmt.Sprintf("vsim-hint-%d", os.Getpid()))
	_ = os.RemoveAll(tmp)
	_ = os.MkdirAll(tmp, 0o755)
	defer os.RemoveAll(tmp)
	if err := os.WriteFile(filepath.Join(tmp, "000000000.hint"), logicalContent(hf), 0o644); err != nil {
		r.Infra = err.Error()
		return
	}
	type hinted struct {
		key string
		pos datafile.DataPos
	}
	var hints []hinted
	var herr error
	ok := r.call("NextHintRecord", func() {
		df, err := datafile.OpenFile(tmp, 0, datafile.HintFileSuffix, 0)
		if err != nil {
			herr = err
			return
		}
		defer df.Close()
		rd := df.NewReader()
		for {
			k, pos, err := rd.NextHintRecord()
			if err == io.EOF {
				return
			}
			if err != nil {
				herr = err
				return
			}
			hints = append(hints, hinted{string(k), *pos})
		}
	})
	if !ok {
		return
	}
	if herr != nil {
		r.fail("hint-unreadable", "", "reading the hint file: %v", herr)
		return
	}
	recs, ids, err := r.scanDir("db-merge")
	if err != nil {
		r.fail("merged-unreadable", "", "scanning the merged files: %v", err)
		return
	}
	type ent struct {
		key                   string
		fid, block, off, size uint32
	}
	want := map[ent]int{}
	vals := map[ent][]byte{}
	for _, id := range ids {
		for _, s := range recs[id] {
			e := ent{s.key, s.fid, s.pos.BlockID, s.pos.Offset, s.size}
			want[e]++
			vals[e] = s.val
			if s.typ != datafile.LogRecordNormal {
				r.fail("merged-nonlive-record", "", "merged file %d holds a record of type %d for key %q", id, s.typ, s.key)
				return
			}
		}
	}
	for _, h := range hints {
		e := ent{h.key, h.pos.Fid, h.pos.BlockID, h.pos.Offset, h.pos.Size}
		if want[e] == 0 {
			r.fail("hint-entry-without-record", "", "hint entry (key %q, file %d, block %d, offset %d, size %d) matches no record of the merged files", h.key, h.pos.Fid, h.pos.BlockID, h.pos.Offset, h.pos.Size)
			return
		}
		want[e]--
		if live, ok := r.M[h.key]; r.extra["hintConc"] == nil && (!ok || !beq(live, vals[e])) {
			r.fail("hint-entry-not-live", "", "hint entry for key %q points at %s, the live value is %s", h.key, show(vals[e]), show(live))
			return
		}
	}
	var orphan []ent
	for e, n := range want {
		if n != 0 {
			orphan = append(orphan, e)
		}
	}
	if len(orphan) > 0 {
		sort.Slice(orphan, func(a, b int) bool {
			x, y := orphan[a], orphan[b]
			if x.fid != y.fid {
				return x.fid < y.fid
			}
			if x.block != y.block {
				return x.block < y.block
			}
			return x.off < y.off
		})
		e := orphan[0]
		r.fail("record-without-hint", "", "merged record (key %q, file %d, block %d, offset %d) has no hint entry", e.key, e.fid, e.block, e.off)
		return
	}
	// (writers that ran next to the merge may have superseded or deleted what it rewrote: the hint then still has to
	// index the merged files faithfully, but not the live mapping)
	if len(hints) != len(r.M) && r.extra["hintConc"] == nil {
		r.fail("hint-key-count", "", "the hint file names %d keys, the database holds %d", len(hints), len(r.M))
		return
	}
	r.inc("hint_checks")
	r.add("hint_entries", int64(len(hints)))
	if len(ids) > 1 {
		r.inc("hint_multi_file_output")
	}
	// hint path vs scan path on two copies of the tree
	r.compareHintAndScanOpen()
}

func (r *Runner) copyTreeTo(sub string) error {
	for _, n := range r.FS.Live.SortedNames() {
		if !strings.HasPrefix(n, "db/") && !strings.HasPrefix(n, "db-merge/") {
			continue
		}
		f := r.FS.Live.File(n)
		p := filepath.Join(r.Root, sub, n)
		if err := os.MkdirAll(filepath.Dir(p), 0o755); err != nil {
			return err
		}
		if err := os.WriteFile(p, logicalContent(f), 0o644); err != nil {
			return err
		}
	}
	return nil
}

// logicalContent returns the logical bytes of a model file: for a file that is still pre-extended by an open
// memory mapping that is the written high-water mark, otherwise the physical content.
func logicalContent(f *vos.MFile) []byte {
	if f.Size-int64(len(f.Data)) > blockSz {
		return f.Data
	}
	return f.Content()
}

type openView struct {
	dump *Dump
	st   kv.Stat
}

func (r *Runner) openAndView(dir string, times int) (*openView, string) {
	var v openView
	for t := 0; t < times; t++ {
		var db *kv.DB
		var err error
		p, fr := protect(func() { db, err = kv.Open(r.options(r.Cfg, dir)) })
		if p != "" {
			return nil, fmt.Sprintf("Open panicked: %s (in %s)", clip(p, 200), fr)
		}
		if err != nil {
			return nil, "Open: " + errName(err)
		}
		d, f := dumpDB(db, r.Ever)
		if f != "" {
			_ = db.Close()
			return nil, f
		}
		v.dump = d
		v.st = *db.Stat()
		if err := db.Close(); err != nil {
			return nil, "Close: " + errName(err)
		}
	}
	return &v, ""
}

func (r *Runner) compareHintAndScanOpen() {
	if err := r.copyTreeTo("cpA"); err != nil {
		r.Infra = err.Error()
		return
	}
	if err := r.copyTreeTo("cpB"); err != nil {
		r.Infra = err.Error()
		return
	}
	a, fa := r.openAndView(filepath.Join(r.Root, "cpA", "db"), 1)
	if fa != "" {
		r.fail("hint-open", "", "opening through the hint file: %s", fa)
		return
	}
	b, fb := r.openAndView(filepath.Join(r.Root, "cpB", "db"), 2)
	if fb != "" {
		r.fail("scan-open", "", "opening by scanning the adopted files: %s", fb)
		return
	}
	if d := diffState(a.dump, State(b.dump.Vals)); d != "" {
		r.fail("hint-vs-scan", "", "hint-path Open and scan-path Open differ: %s", d)
		return
	}
	if d := diffState(a.dump, r.M); d != "" {
		r.fail("hint-vs-model", "", "hint-path Open differs from the database: %s", d)
		return
	}
	if a.st.KeyNum != b.st.KeyNum || a.st.DiskSize-a.st.ReclaimableSize != b.st.DiskSize-b.st.ReclaimableSize {
		r.fail("hint-vs-scan-sizes", "", "hint-path Open reports KeyNum %d live bytes %d, scan-path Open KeyNum %d live bytes %d", a.st.KeyNum, a.st.DiskSize-a.st.ReclaimableSize, b.st.KeyNum, b.st.DiskSize-b.st.ReclaimableSize)
		return
	}
	r.inc("hint_vs_scan_opens")
	_ = vos.RemoveAll(filepath.Join(r.Root, "cpA"))
	_ = vos.RemoveAll(filepath.Join(r.Root, "cpB"))
}

// ---------------------------------------------------------------------------------------------------------
// C06: what the directory must look like after the adopting restart
// ---------------------------------------------------------------------------------------------------------

// mergeMarkerID returns the id of the data file the last Merge rotated to (the first file that did not take part),
// derived from the journal: the highest data file created in db/ during the merge step.
func (r *Runner) markerOf(step int) (uint32, bool) {
	best := ""
	for i := range r.FS.Journal {
		e := &r.FS.Journal[i]
		if e.Op == step && e.Kind == vos.KCreate && isDBData(e.Path) && e.Path > best {
			best = e.Path
		}
	}
	if best == "" {
		return 0, false
	}
	id, err := strconv.ParseUint(strings.TrimSuffix(filepath.Base(best), ".data"), 10, 32)
	return uint32(id), err == nil
}

func (r *Runner) checkAdopted(mergeStep int, liveAtMerge map[string]map[string]bool) {
	marker, ok := r.markerOf(mergeStep)
	if !ok {
		return
	}
	// which files arrived by rename from the merge directory since the merge
	arrived := map[string]bool{}
	for i := range r.FS.Journal {
		e := &r.FS.Journal[i]
		if e.Op > mergeStep && e.Kind == vos.KRename && strings.HasPrefix(e.Path, "db-merge/") && isDBData(e.Path2) {
			arrived[e.Path2] = true
		}
	}
	if len(arrived) == 0 {
		r.fail("merge-not-adopted", "", "Merge returned nil but the restart adopted none of its files")
		return
	}
	recs, ids, err := r.scanDir("db")
	if err != nil {
		r.fail("scan-after-adoption", "", "%v", err)
		return
	}
	for _, id := range ids {
		if id >= marker {
			continue
		}
		n := fmt.Sprintf("db/%09d.data", id)
		if !arrived[n] {
			r.fail("unmerged-file-left", "", "after adoption %s (id below the merge marker %d) is not one of the merged files: the garbage was not reclaimed", n, marker)
			return
		}
	}
	seen := map[string]bool{}
	for _, id := range ids {
		if id >= marker {
			continue
		}
		for _, s := range recs[id] {
			if s.typ != datafile.LogRecordNormal || s.batch != 0 {
				r.fail("merged-garbage", "", "merged file %d holds a record of type %d batch %d (key %q)", id, s.typ, s.batch, s.key)
				return
			}
			if seen[s.key] {
				r.fail("merged-duplicate", "", "key %q occurs twice in the merged files", s.key)
				return
			}
			seen[s.key] = true
			if hist := liveAtMerge[s.key]; hist == nil || !hist[string(s.val)] {
				r.fail("merged-stale-record", "", "merged record (%q, %s) was not live at any moment of the merge", s.key, show(s.val))
				return
			}
		}
	}
	r.inc("adoptions_checked")
	if len(arrived) < int(marker) {
		r.inc("adoptions_fewer_files")
	}
}

var _ = bytes.Equal
