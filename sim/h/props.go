package h

func (r *Runner) checkAllSynced(when string)     {}
func (r *Runner) checkSyncPolicy(i int, op *Op)   {}
func (r *Runner) checkStatExact(when string)      {}
