package h

import (
	"errors"
	"fmt"
	"math"
	"sort"
	"time"

	kv "github.com/XiXi-2024/xixi-kv"
	"github.com/XiXi-2024/xixi-kv/datatype"
	"github.com/XiXi-2024/xixi-kv/vsim/vclock"
	"github.com/XiXi-2024/xixi-kv/vsim/vrt"
)

func init() {
	arms["dt"] = runDT
	generators["C19"] = genDT
}

// ---- abstract reference model of the Redis-style layer ----

type dtKind int

const (
	dtNone dtKind = iota
	dtString
	dtHash
	dtSet
	dtList
	dtZSet
)

var dtNames = map[dtKind]string{dtString: "String", dtHash: "Hash", dtSet: "Set", dtList: "List", dtZSet: "ZSet"}

type dtKey struct {
	kind   dtKind
	str    string
	expire int64 // 0 = never
	hash   map[string]string
	set    map[string]bool
	list   []string
	zset   map[string]float64
}

type dtModel struct{ keys map[string]*dtKey }

func (k *dtKey) expired(now int64) bool {
	return k.kind == dtString && k.expire > 0 && k.expire <= now
}

// reply is a normalised answer: "absent", "wrongtype", or a printable value.
type reply string

const (
	rAbsent    reply = "absent"
	rWrongType reply = "wrongtype"
	rOK        reply = "ok"
)

// rv is the reply "this value". A command that returns ([]byte, error) answers (nil, nil) both for "nothing there" and
// for an empty value (the engine hands out nil for a zero-length value), so at the API an empty value and an absent
// one are the same reply - for the model as for the engine (nil == empty, as everywhere in this harness).
func rv(b []byte) reply {
	if len(b) == 0 {
		return rAbsent
	}
	return reply("v:" + string(b))
}
func rb(b bool) reply    { return reply(fmt.Sprintf("b:%v", b)) }
func rn(n uint32) reply  { return reply(fmt.Sprintf("n:%d", n)) }
func rf(f float64) reply { return reply(fmt.Sprintf("f:%v", f)) }
func rt(k dtKind) reply  { return reply("t:" + dtNames[k]) }

// expect computes the model's reply to op and applies its effect. collection(k, kind) implements the shared
// "find or create a collection of this type" step.
func (m *dtModel) expect(op *Op, now int64) reply {
	key := string(op.Key)
	k := m.keys[key]
	coll := func(kind dtKind, create bool) (*dtKey, reply) {
		if k != nil && k.kind != kind {
			return nil, rWrongType
		}
		if k == nil && create {
			k = &dtKey{kind: kind, hash: map[string]string{}, set: map[string]bool{}, zset: map[string]float64{}}
			m.keys[key] = k
		}
		return k, ""
	}
	f2 := string(op.F2)
	switch op.K {
	case "set":
		exp := int64(0)
		if op.N != 0 {
			exp = now + int64(op.N)
		}
		m.keys[key] = &dtKey{kind: dtString, str: string(op.Val.Bytes()), expire: exp}
		return rOK
	case "dget":
		if k == nil {
			return rAbsent
		}
		if k.kind != dtString {
			return rWrongType
		}
		if k.expired(now) {
			return rAbsent
		}
		return rv([]byte(k.str))
	case "ddel":
		delete(m.keys, key)
		return rOK
	case "type":
		if k == nil {
			return rAbsent
		}
		return rt(k.kind)
	case "hset":
		c, r := coll(dtHash, true)
		if r != "" {
			return r
		}
		_, had := c.hash[f2]
		c.hash[f2] = string(op.Val.Bytes())
		return rb(!had)
	case "hget":
		c, r := coll(dtHash, false)
		if r != "" {
			return r
		}
		if c == nil {
			return rAbsent
		}
		if v, ok := c.hash[f2]; ok {
			return rv([]byte(v))
		}
		return rAbsent
	case "hdel":
		c, r := coll(dtHash, false)
		if r != "" {
			return r
		}
		if c == nil {
			return rb(false)
		}
		_, had := c.hash[f2]
		delete(c.hash, f2)
		return rb(had)
	case "sadd":
		c, r := coll(dtSet, true)
		if r != "" {
			return r
		}
		had := c.set[f2]
		c.set[f2] = true
		return rb(!had)
	case "sismember":
		c, r := coll(dtSet, false)
		if r != "" {
			return r
		}
		return rb(c != nil && c.set[f2])
	case "srem":
		c, r := coll(dtSet, false)
		if r != "" {
			return r
		}
		if c == nil {
			return rb(false)
		}
		had := c.set[f2]
		delete(c.set, f2)
		return rb(had)
	case "lpush", "rpush":
		c, r := coll(dtList, true)
		if r != "" {
			return r
		}
		if op.K == "lpush" {
			c.list = append([]string{string(op.Val.Bytes())}, c.list...)
		} else {
			c.list = append(c.list, string(op.Val.Bytes()))
		}
		return rn(uint32(len(c.list)))
	case "lpop", "rpop":
		c, r := coll(dtList, false)
		if r != "" {
			return r
		}
		if c == nil || len(c.list) == 0 {
			return rAbsent
		}
		var v string
		if op.K == "lpop" {
			v, c.list = c.list[0], c.list[1:]
		} else {
			v, c.list = c.list[len(c.list)-1], c.list[:len(c.list)-1]
		}
		return rv([]byte(v))
	case "zadd":
		c, r := coll(dtZSet, true)
		if r != "" {
			return r
		}
		_, had := c.zset[f2]
		c.zset[f2] = op.F
		return rb(!had)
	case "zscore":
		c, r := coll(dtZSet, false)
		if r != "" {
			return r
		}
		if c == nil {
			return rAbsent
		}
		if s, ok := c.zset[f2]; ok {
			return rf(s)
		}
		return rAbsent
	}
	return "?"
}

// actual executes op against the real layer and normalises the reply. other != "" reports an error value that
// is none of the documented ones.
func dtActual(svc *datatype.DataTypeService, op *Op) (rep reply, other string) {
	norm := func(err error) (reply, string) {
		switch {
		case err == nil:
			return "", ""
		case errors.Is(err, datatype.ErrWrongTypeOperation):
			return rWrongType, ""
		case errors.Is(err, kv.ErrKeyNotFound):
			return rAbsent, ""
		}
		return "", errName(err)
	}
	key := []byte(op.Key)
	f2 := []byte(op.F2)
	switch op.K {
	case "set":
		err := svc.Set(key, op.Val.Bytes(), time.Duration(op.N))
		if r, o := norm(err); r != "" || o != "" {
			return r, o
		}
		return rOK, ""
	case "dget":
		v, err := svc.Get(key)
		if r, o := norm(err); r != "" || o != "" {
			return r, o
		}
		if v == nil {
			return rAbsent, ""
		}
		return rv(v), ""
	case "ddel":
		err := svc.Del(key)
		if r, o := norm(err); r != "" || o != "" {
			return r, o
		}
		return rOK, ""
	case "type":
		t, err := svc.Type(key)
		if r, o := norm(err); r != "" || o != "" {
			return r, o
		}
		return rt(dtKind(int(t) + 1)), ""
	case "hset":
		b, err := svc.HSet(key, f2, op.Val.Bytes())
		if r, o := norm(err); r != "" || o != "" {
			return r, o
		}
		return rb(b), ""
	case "hget":
		v, err := svc.HGet(key, f2)
		if r, o := norm(err); r != "" || o != "" {
			return r, o
		}
		if v == nil {
			return rAbsent, ""
		}
		return rv(v), ""
	case "hdel":
		b, err := svc.HDel(key, f2)
		if r, o := norm(err); r != "" || o != "" {
			return r, o
		}
		return rb(b), ""
	case "sadd":
		b, err := svc.SAdd(key, f2)
		if r, o := norm(err); r != "" || o != "" {
			return r, o
		}
		return rb(b), ""
	case "sismember":
		b, err := svc.SIsMember(key, f2)
		if r, o := norm(err); r != "" || o != "" {
			return r, o
		}
		return rb(b), ""
	case "srem":
		b, err := svc.SRem(key, f2)
		if r, o := norm(err); r != "" || o != "" {
			return r, o
		}
		return rb(b), ""
	case "lpush":
		n, err := svc.LPush(key, op.Val.Bytes())
		if r, o := norm(err); r != "" || o != "" {
			return r, o
		}
		return rn(n), ""
	case "rpush":
		n, err := svc.RPush(key, op.Val.Bytes())
		if r, o := norm(err); r != "" || o != "" {
			return r, o
		}
		return rn(n), ""
	case "lpop":
		v, err := svc.LPop(key)
		if r, o := norm(err); r != "" || o != "" {
			return r, o
		}
		if v == nil {
			return rAbsent, ""
		}
		return rv(v), ""
	case "rpop":
		v, err := svc.RPop(key)
		if r, o := norm(err); r != "" || o != "" {
			return r, o
		}
		if v == nil {
			return rAbsent, ""
		}
		return rv(v), ""
	case "zadd":
		b, err := svc.ZAdd(key, op.F, f2)
		if r, o := norm(err); r != "" || o != "" {
			return r, o
		}
		return rb(b), ""
	case "zscore":
		s, err := svc.ZScore(key, f2)
		if r, o := norm(err); r != "" || o != "" {
			return r, o
		}
		if s == -1 {
			return rAbsent, ""
		}
		return rf(s), ""
	}
	return "?", ""
}

func runDT(r *Runner) {
	if err := r.begin(); err != nil {
		r.Infra = err.Error()
		return
	}
	defer r.end()
	s := vrt.NewSched(vrt.Policy{Mode: "seq"})
	s.Go("client", func() { r.dtMain() })
	s.Run()
	r.afterSched(s)
}

func (r *Runner) dtMain() {
	r.judging = false
	var svc *datatype.DataTypeService
	open := func() bool {
		var err error
		p, fr := protect(func() { svc, err = datatype.NewDataTypeService(r.options(r.Cfg, r.dbDir())) })
		if p != "" {
			r.fail("panic", "Open@"+fr, "NewDataTypeService: %s", clip(p, 300))
			return false
		}
		if err != nil {
			r.fail("open-error", errName(err), "NewDataTypeService: %v", err)
			return false
		}
		return true
	}
	if !open() {
		return
	}
	m := &dtModel{keys: map[string]*dtKey{}}
	ops := r.C.Clients[0]
	for i := 0; ; i++ {
		var op *Op
		if r.gen != nil {
			r.extra["dtmodel"] = m
			op = r.gen(r, i)
			if op == nil {
				break
			}
			inflightStep(op)
			r.C.Clients[0] = append(r.C.Clients[0], *op)
			op = &r.C.Clients[0][len(r.C.Clients[0])-1]
		} else {
			if i >= len(ops) {
				break
			}
			op = &ops[i]
		}
		r.step = i
		r.FS.CurOp = i
		if op.K == "restart" {
			r.judging = false
			var err error
			p, _ := protect(func() { err = svc.Close() })
			if p != "" || err != nil {
				r.fail("close-error", "", "Close: %s %v", clip(p, 200), err)
				return
			}
			vclock.Advance(50 * time.Millisecond)
			r.judging = true // "the whole state is unchanged by restart": reopening must work
			if !open() {
				return
			}
			r.inc("restarts")
			r.advanceClock(op)
			continue
		}
		if op.K == "sleep" {
			r.advanceClock(op)
			continue
		}
		r.judging = true
		now := vclock.NowNs()
		k := m.keys[string(op.Key)]
		expiredString := k != nil && k.expired(now) && op.K != "set" && op.K != "dget" && op.K != "ddel"
		var got reply
		var other string
		p, fr := protect(func() { got, other = dtActual(svc, op) })
		if p != "" {
			r.fail("panic", op.K+"@"+fr, "%s(%q): %s (in %s)", op.K, op.Key, clip(p, 300), fr)
			return
		}
		if other != "" {
			r.fail("dt-unexpected-error", op.K+":"+other, "%s(%q, %q) returned the undocumented error %s", op.K, op.Key, op.F2, other)
			return
		}
		var want reply
		if expiredString {
			// documented relaxation: a non-string command (or Type) on a string that has expired but not been deleted
			// may answer as on a live string or as on an absent key; the model follows whichever was chosen
			asLive := (&dtModel{keys: map[string]*dtKey{string(op.Key): {kind: dtString}}}).expect(op, now)
			if got == asLive {
				want = asLive
				r.inc("expired_string_answered_as_live")
			} else {
				delete(m.keys, string(op.Key))
				want = m.expect(op, now)
				r.inc("expired_string_answered_as_absent")
			}
		} else {
			if k != nil && k.expired(now) {
				r.inc("expired_reads")
			}
			want = m.expect(op, now)
		}
		if got != want {
			r.fail("dt-reply-mismatch", op.K, "step %d: %s(key %q, field/member %q) replied %s, the abstract type says %s", i, op.K, op.Key, op.F2, clip(string(got), 60), clip(string(want), 60))
			return
		}
		r.inc("dt_" + op.K)
		r.inc("dt_commands")
		if want == rWrongType {
			r.inc("dt_wrongtype_replies")
		}
		r.advanceClock(op)
		r.StateHs = append(r.StateHs, m.hash())
	}
	r.judging = false
	protect(func() { _ = svc.Close() })
}

func (m *dtModel) hash() uint64 {
	ks := make([]string, 0, len(m.keys))
	for k := range m.keys {
		ks = append(ks, k)
	}
	sort.Strings(ks)
	h := uint64(7)
	for _, k := range ks {
		v := m.keys[k]
		h = vrt.Mix(h, vrt.HashString(k), uint64(v.kind), uint64(len(v.hash)+len(v.set)+len(v.list)+len(v.zset)), vrt.HashString(v.str))
	}
	return h
}

func genDT(c *Case, rng *vrt.Rand, tier string) func(r *Runner, i int) *Op {
	c.Arm = "dt"
	c.Cfg = genConfig(rng, rng.Chance(0.5))
	if c.Cfg.Shards > 16 {
		c.Cfg.Shards = 16
	}
	nkeys := rng.Range(1, 4)
	nf := rng.Range(1, 4)
	keys := make([][]byte, nkeys)
	for i := range keys {
		keys[i] = []byte(fmt.Sprintf("K%d", i))
	}
	fields := make([][]byte, nf)
	for i := range fields {
		fields[i] = []byte(fmt.Sprintf("f%d", i))
	}
	cmds := []string{"set", "dget", "ddel", "type", "hset", "hget", "hdel", "sadd", "sismember", "srem", "lpush", "rpush", "lpop", "rpop", "zadd", "zscore", "restart"}
	w := make([]int, len(cmds))
	for i := range w {
		if rng.Chance(0.7) {
			w[i] = rng.Range(1, 6)
		}
	}
	w[2] = min(w[2], 2)
	w[len(w)-1] = min(w[len(w)-1], 2)
	steps := rng.Range(4, 60)
	var tag uint32
	// 3% of the runs first grow one collection to 100..700 elements (size counters beyond one byte, list cursors far
	// from their initial position, many members per structure) before the usual commands continue on all keys
	bulkN, bulkKind := 0, ""
	if rng.Chance(0.03) {
		bulkN = rng.Range(100, 700)
		bulkKind = []string{"hset", "sadd", "lpush", "rpush", "zadd"}[rng.Intn(5)]
		steps += bulkN
		if c.Cfg.FileSize < 4096 {
			// thousands of one-record files, all of them mapped, make a run take minutes (the model of the mapped
			// files is refreshed at every file call): large collections are about counters and cursors, not rotation
			c.Cfg.FileSize = 4096
		}
		for j := 0; j < 3; j++ {
			fields = append(fields, []byte(fmt.Sprintf("m%04d", rng.Intn(bulkN))))
		}
		nf = len(fields)
	}
	return func(r *Runner, i int) *Op {
		if i >= steps {
			return nil
		}
		if i < bulkN {
			tag++
			return &Op{K: bulkKind, Key: keys[0], F2: Bytes(fmt.Sprintf("m%04d", (i*7)%bulkN)), Val: &Val{Len: rng.Range(1, 8), Tag: tag},
				F: float64(i%50) + 0.5, Dt: int64(rng.Range(1, 2000))}
		}
		op := &Op{K: cmds[rng.Pick(w)]}
		op.Key = keys[rng.Intn(nkeys)]
		// two thirds of the commands fit the current type of the key they address (deeper states of one structure);
		// the rest is type-blind (wrong-type replies, re-creation with another type)
		if m, ok := r.extra["dtmodel"].(*dtModel); ok && op.K != "restart" && rng.Chance(0.66) {
			if k := m.keys[string(op.Key)]; k != nil {
				var fit []string
				switch k.kind {
				case dtString:
					fit = []string{"set", "dget", "dget", "type", "ddel"}
				case dtHash:
					fit = []string{"hset", "hset", "hget", "hdel", "type"}
				case dtSet:
					fit = []string{"sadd", "sadd", "sismember", "srem", "type"}
				case dtList:
					fit = []string{"lpush", "rpush", "lpop", "rpop", "lpop", "rpop"}
				case dtZSet:
					fit = []string{"zadd", "zadd", "zscore", "zscore"}
				}
				if len(fit) > 0 {
					op.K = fit[rng.Intn(len(fit))]
				}
			}
		}
		op.F2 = fields[rng.Intn(nf)]
		tag++
		op.Val = &Val{Len: rng.Range(1, 24), Tag: tag}
		if rng.Chance(0.06) {
			op.Val.Len = 0 // an empty string value, hash value or list element (seeded change S109)
		}
		switch op.K {
		case "set":
			if rng.Chance(0.6) {
				op.N = int(rng.Pick([]int{1, 1, 1})+1) * rng.Range(1, 5000) * 1000 // 1us .. 15ms
			}
			if rng.Chance(0.04) {
				// very long lives: a century, and lives whose end lies beyond what int64 nanoseconds can express
				// (the key then simply never expires)
				op.N = []int{100 * 365 * 24 * 3600 * 1_000_000_000, 260 * 365 * 24 * 3600 * 1_000_000_000, math.MaxInt64, math.MaxInt64 - 1_700_000_000_000_000_000}[rng.Intn(4)]
			}
		case "zadd":
			op.F = float64(rng.Range(0, 5)) + float64(rng.Intn(4))*0.25
			if rng.Chance(0.1) {
				op.F = -float64(rng.Range(2, 9)) // negative scores (never -1, which the layer also uses for "absent")
			}
			if rng.Chance(0.06) {
				// scores at the edges of float64: beyond 2^53, huge, tiny, negative and large
				op.F = []float64{9007199254740993, 1e15 + 0.5, 1.7e308, 1e-300, -1e18, 4294967296.25, 0.1 + 0.2}[rng.Intn(7)]
			}
		case "restart":
			op.Val = nil
			op.Key = nil
			op.F2 = nil
		}
		// clock step: often aimed at an expiry instant of some string key (expiry-1ns, expiry, expiry+1ns)
		op.Dt = int64(rng.Range(1, 2_000_000))
		if m, ok := r.extra["dtmodel"].(*dtModel); ok && rng.Chance(0.5) {
			now := vclock.NowNs()
			var exps []int64
			for _, k := range m.keys {
				if k.kind == dtString && k.expire > now {
					exps = append(exps, k.expire)
				}
			}
			sort.Slice(exps, func(a, b int) bool { return exps[a] < exps[b] })
			if op.K == "set" && op.N > 0 {
				exps = append(exps, now+int64(op.N))
			}
			if len(exps) > 0 {
				target := exps[rng.Intn(len(exps))] + int64(rng.Range(-1, 1))
				if target > now {
					op.Dt = target - now
				}
			}
		}
		return op
	}
}
