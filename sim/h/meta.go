package h

// Meta is the static description of a property's check, reported by `simbin meta` and copied into the evidence.
type Meta struct {
	Level       string   `json:"level"`
	Rule        string   `json:"rule"`
	Assumptions []string `json:"assumptions"`
	Required    []string `json:"required_probes"`
	Quick       int      `json:"quick_runs"`
	Thorough    int      `json:"thorough_runs"`
	Race        bool     `json:"race"`
	Real        []string `json:"real_components"`
	Stubbed     []string `json:"stubbed_components"`
	NotReached  []string `json:"not_reached"`
	Technique   string   `json:"technique"`
}

var realComponents = []string{
	"xixi-kv root package (db.go batch.go merge.go iterator.go)", "xixi-kv/index", "xixi-kv/datafile", "xixi-kv/fio",
	"xixi-kv/utils", "xixi-kv/datatype", "google/btree", "huandu/skiplist", "cespare/xxhash", "valyala/bytebufferpool",
	"gofrs/flock (real flock(2))", "edsrzf/mmap-go (real mmap/msync/munmap)", "Linux tmpfs holding the bytes",
}

var stubbedComponents = []string{
	"sync.Mutex/RWMutex -> vsync (cooperative, scheduler-owned)", "sync.Pool -> vsync.Pool (deterministic LIFO)",
	"os file and directory calls -> vos (real call + journal + durability model)", "syscall.Statfs -> simulated free space",
	"time.Now -> vclock", "snowflake node -> vclock-driven node with the same id layout", "map iteration order -> seeded permutation",
}

var notReached = []string{
	"EnableBackgroundMerge (ticker goroutine) is never enabled", "http/ and datatype/cmd servers", "examples/ benchmark/",
	"I/O errors returned to the engine on its main data path (no listed property defines the expected behaviour)",
}

var commonAssumptions = []string{
	"seeded sampling: a clean batch is evidence over the counted cases, not a proof",
	"directory operations (create, rename, remove) are durable in program order",
	"the wall clock strictly increases between two API calls of one process lifetime (across a crash it may be stepped back: injected in C03/C04)",
}

// Metas describes each property's check.
var Metas = map[string]*Meta{}

func meta(prop, level, technique, rule string, quick, thorough int, required []string, assumptions ...string) {
	Metas[prop] = &Meta{Level: level, Rule: rule, Assumptions: append(append([]string{}, commonAssumptions...), assumptions...),
		Required: required, Quick: quick, Thorough: thorough, Real: realComponents, Stubbed: stubbedComponents,
		NotReached: notReached, Technique: technique}
}

func init() {
	seqTech := "deterministic simulation: seeded single-client operation sequences on the simulated disk under the cooperative scheduler; "
	meta("C01", "exploration", seqTech+"reference-map oracle after every step; in a quarter of the runs the process may die between two operations (also inside a batch) and the history continues on the recovered database",
		NontrivialRuleText["C01"], 16000, 400000,
		[]string{"rotations", "writes_spanning_blocks", "writes_ending_near_boundary", "oversized_writes", "overwrites", "deletes_present", "batches", "merges", "restarts_after_merge", "bulk_loads"})
	meta("C02", "exploration", seqTech+"restart as a generated step with an independently drawn reader configuration; dump before Close == dump after Open",
		NontrivialRuleText["C02"], 12000, 300000,
		[]string{"restarts", "restart_config_changed", "restart_file_end_near_boundary", "restart_file_end_on_boundary", "restarts_after_merge", "batches", "rotations", "bulk_loads"})
	crashTech := "deterministic simulation with fault injection: the workload runs once on the journalling disk, then the directory is rebuilt as of every journal position (process crash) and, for a seeded subset, with unsynced file tails cut (power loss); the real Open runs on each image; "
	meta("C03", "fault_enumeration", crashTech+"recovered dump must equal an allowed prefix state, and the recovered database must stay usable (a Put, fresh batches, a clean restart); 30% of the runs crash a database that 2..4 clients were using under the seeded scheduler (incl. a Merge racing one kind of writer): the recovered mapping must result from a real-time-respecting order of a downward-closed set of the begun operations that contains every operation that must have survived",
		NontrivialRuleText["C03"], 2000, 30000,
		[]string{"fault_process_crash_images", "fault_power_loss_images", "fault_torn_write_images", "images_ok", "usability_rounds", "rotations", "cc_groups", "cc_merges", "cc_images_with_inflight_ops"},
		"power loss loses a not-yet-synced tail of a file from the end only (no reordering inside the tail, no sector garbage)")
	meta("C04", "fault_enumeration", crashTech+"a batch is one mutation of the prefix oracle, so a partial batch equals no allowed state; 30% of the runs: batches committed by several concurrent clients (incl. next to a Merge), each batch one atomic step of the order searched for",
		NontrivialRuleText["C04"], 600, 6000,
		[]string{"fault_process_crash_images", "fault_power_loss_images", "images_ok", "batches", "sync_batches", "rotations", "cc_batches", "cc_merges", "fault_clock_stepped_back"},
		"power loss loses a not-yet-synced tail of a file from the end only")
	meta("C07", "fault_enumeration", crashTech+"two levels deep for Merge and adoption: every position of the recovery Open is crashed again, then a clean Open; after recovering from a crash inside Merge the history continues with deletes, overwrites, a second Merge and two restarts; half of the runs: a Merge racing concurrent writers under the seeded scheduler, crashed at every journal position",
		NontrivialRuleText["C07"], 700, 8000,
		[]string{"fault_process_crash_images", "fault_second_crash_images", "images_ok", "merges", "reopen_after_recovery", "cc_merges", "second_merge_rounds"},
		"process crash only (the property says 'the process dies')")
	meta("C11", "exploration", "deterministic simulation (fault-free, one client): the exported datafile API is driven on the simulated disk through both I/O back-ends in lock-step; record start offsets and end distances are aimed using file sizes observed at the disk seam; round-trip, positions, sizes, logical==physical and byte-identity of the back-ends are checked",
		NontrivialRuleText["C11"], 6000, 32768,
		[]string{"df_records", "df_staged_flushes", "df_reopens", "df_end_within_8_of_boundary", "df_end_on_boundary", "df_multi_block_records", "df_start_offsets_hit", "df_identical_backend_files"},
		"no schedule, clock or fault is involved: the simulator contributes the physical-size and written-bytes observation at the disk seam")
	meta("C12", "fault_enumeration", "deterministic simulation with fault injection: a small database is built on the simulated disk and closed; stored bytes of its data and hint files are then altered on copies (all single-bit flips for small trees, seeded header-biased flips otherwise, overwrites, truncations, garbage blocks, whole records transplanted over records of the same length), for a third of the faults also on the files of the database while it is open (standard I/O); Open / Get / Fold / the sequential reader are judged",
		NontrivialRuleText["C12"], 500, 2000,
		[]string{"fault_damage_flip", "fault_damage_overwrite", "fault_damage_truncate", "fault_damage_garbage", "exhaustive_flip_runs", "damage_detected_at_open", "damage_harmless_or_detected", "damage_exposed_prefix_state", "fault_damage_transplant", "damage_live_images", "damage_live_detected"},
		"a random overwrite that carries a valid CRC-32 by chance (2^-32) is ignored", "a zero-filled run that reaches the end of its block is indistinguishable from file pre-extension by design and is not injected", "damage to the lock file and the merge-finished marker is not injected (the property is about data and hint files)")
	concTech := "deterministic simulation: 2..16 client tasks (real goroutines, exactly one runnable) interleaved by the seeded cooperative scheduler at every lock boundary and file call (random / sticky / PCT-style bounded-preemption policies); "
	meta("C08", "exploration", concTech+"per-key histories stamped with global event numbers checked with porcupine against a register model; live dump at quiescence == dump after restart",
		NontrivialRuleText["C08"], 25000, 500000,
		[]string{"sched_switches", "lock_waits", "linearizability_checks", "live_vs_restart_checks", "conc_puts", "conc_dels", "conc_gets"},
		"porcupine time-outs (20 s per key) are counted as inconclusive and never reported")
	meta("C09", "exploration", concTech+"the binary is built with the Go race detector and the scheduler's hand-offs are invisible to it (runtime.RaceDisable around them, vsync emitting exactly sync's annotations), so reports are data races of the engine's own synchronisation on replayable schedules; plus panics, exact deadlock detection, undocumented errors",
		NontrivialRuleText["C09"], 15000, 700000,
		[]string{"sched_switches", "lock_waits", "conc_puts", "conc_lists", "conc_folds", "conc_iter_sessions", "conc_stats", "conc_syncs", "conc_batches", "conc_merges"},
		"ThreadSanitizer keeps four accesses per 8-byte word: a race can be missed in one schedule, many schedules compensate", "races that need truly parallel torn multi-word accesses are reported as the same race; weak-memory effects beyond the Go memory model are out of reach")
	Metas["C09"].Race = true
	meta("C05", "exploration", seqTech+"layered overlay model for an open batch",
		NontrivialRuleText["C05"], 25000, 500000,
		[]string{"batches", "batch_repeat_key", "batch_put_then_delete", "batch_get_from_db", "rotations"})
	meta("C06", "exploration", seqTech+"dumps before/after Merge and after the adopting and following restarts; journal-derived layout oracle for the adopted directory",
		NontrivialRuleText["C06"], 10000, 300000,
		[]string{"merges", "restarts_after_merge", "adoptions_checked", "adoptions_fewer_files", "merge_dir_gone", "merge_errors", "merge_error_ErrInjected", "merge_error_ErrNoEnoughSpaceForMerge", "conc_merges"},
		"I/O errors are injected only inside the merge side directory (the statement defines Merge's behaviour under an error; nothing defines the main data path's)")
	meta("C10", "exploration", seqTech+"frozen sorted-slice cursor model for iterator sessions; Fold call-backs that overwrite and delete keys during the scan; 30% of the runs: iterators and Fold next to concurrent writers, snapshot isolation decided per key with porcupine",
		NontrivialRuleText["C10"], 30000, 700000,
		[]string{"iter_sessions_multi", "iter_seeks", "iter_rewinds", "iter_nexts", "iter_interleaved_writes", "lists", "folds", "bulk_loads", "fold_callback_writes", "conc_fold_snapshots"})
	meta("C13", "exploration", seqTech+"unsynced-bytes invariants of the journalled disk model evaluated at every return; a fifth of the runs: 2..4 concurrent callers under the seeded scheduler, the policy judged per call on the journal (own writes flushed at return; unflushed bytes of returned calls below the threshold; Sync() covers what was written before its call); 30% of the sequential runs: the process dies between two operations and the policy is judged in the process that recovered the unclosed log",
		NontrivialRuleText["C13"], 20000, 500000,
		[]string{"always_checks", "threshold_checks", "sync_batch_checks", "all_synced_checks", "rotations_checked", "cc_syncs", "cc_batches", "fault_process_killed_between_operations"},
		"for mmap files 'flushed' means covered by an msync issued after the store; msync makes the whole mapping durable")
	meta("C14", "exploration", seqTech+"differential: one generated program executed under 2..4 configurations on separate simulated disks with the same simulated clock; transcripts (and bytes when the layout is equal) must be identical",
		NontrivialRuleText["C14"], 8000, 120000,
		[]string{"configs_compared", "byte_identical_layouts", "restarts", "batches", "iter_sessions", "rotations", "bulk_loads"},
		"Stat sizes, DataFileNum and Merge's return value are excluded from the transcript when DataFileSize differs (they are layout)")
	meta("C15", "exploration", seqTech+"hostile caller: one reused key buffer and one reused value buffer, poisoned after each return, canaries, kept Get results",
		NontrivialRuleText["C15"], 25000, 350000,
		[]string{"puts", "batch_repeat_key", "gets", "dumps"},
		"pool-mediated aliasing is made reproducible by the deterministic LIFO replacement of sync.Pool")
	meta("C17", "exploration", seqTech+"Stat recomputed at every step by scanning the files with the package's own reader; 15% of the runs: concurrent clients (puts, deletes, batches, a merge), Stat recomputed at quiescence and after the restart; 40% of the sequential runs: the process dies between two operations or inside a batch, Stat recomputed after the recovery",
		NontrivialRuleText["C17"], 8000, 100000,
		[]string{"stat_checks", "batches", "merges", "restarts", "oversized_files_ok", "rotations", "sched_switches", "bulk_loads", "fault_process_killed_inside_a_batch"})
	meta("C18", "exploration", seqTech+"hint entries decoded and compared with a scan of the merged files; hint-path Open vs scan-path Open; a fifth of the runs: the merge races concurrent writers",
		NontrivialRuleText["C18"], 8000, 100000,
		[]string{"hint_checks", "hint_multi_file_output", "hint_vs_scan_opens", "conc_merges", "bulk_loads"})
	meta("C16", "exploration", concTech+"parties are in-process opener tasks plus one real child process driven in lock-step over a pipe (the scheduler decides whose turn it is); Open/Close outcomes are checked with porcupine against a single-holder lock model; a janitor task damages and repairs an older data file so that Opens fail after taking the lock; rejected Opens must leave the journal / directory hash unchanged",
		NontrivialRuleText["C16"], 4000, 120000,
		[]string{"opens_ok", "opens_rejected", "opens_failed_other", "closes", "rejected_open_dir_unchanged", "rejected_open_dir_unchanged_peer", "holder_token_writes", "lock_history_checks", "final_opens", "fault_damage_older_file", "stale_closes", "holder_work_0"},
		"flock(2) between two open file descriptions behaves the same within and across processes (the child-process party checks the cross-process half directly)", "the garbage collector is off during a run so that a leaked lock is not released by a finalizer")
	meta("C19", "exploration", seqTech+"the data-type layer is driven with the simulated clock (TTL boundaries hit at expiry-1ns / expiry / expiry+1ns) and restarts; normalised replies vs an abstract-type reference model",
		NontrivialRuleText["C19"], 60000, 1200000,
		[]string{"dt_commands", "dt_wrongtype_replies", "restarts", "expired_reads", "dt_lpop", "dt_zadd", "dt_hdel", "dt_srem"},
		"an emptied collection keeps its type (the statement does not say it vanishes)", "a non-string command on a string that expired but was not deleted may answer as on a live string or as on an absent key")
	meta("C20", "exploration", seqTech+"Backup as a generated step (fresh, existing, oddly named destinations and the directory of the previous backup); the copy is opened while the source stays open and compared with the reference map; 30% of the runs: a backup concurrent with writers (and a merge), judged with porcupine",
		NontrivialRuleText["C20"], 6000, 200000,
		[]string{"backups", "backups_mmap", "backups_into_older_backup"})
}
