package h

// Meta is the static description of a property's check, reported by `simbin meta` and copied into the evidence.
type Meta struct {
	Level       string   `json:"level"`
	Rule        string   `json:"rule"`
	Assumptions []string `json:"assumptions"`
	Required    []string `json:"required_probes"`
	Quick       int      `json:"quick_runs"`
	Thorough    int      `json:"thorough_runs"`
	Race        bool     `json:"race"`
	Real        []string `json:"real_components"`
	Stubbed     []string `json:"stubbed_components"`
	NotReached  []string `json:"not_reached"`
	Technique   string   `json:"technique"`
}

var realComponents = []string{
	"xixi-kv root package (db.go batch.go merge.go iterator.go)", "xixi-kv/index", "xixi-kv/datafile", "xixi-kv/fio",
	"xixi-kv/utils", "xixi-kv/datatype", "google/btree", "huandu/skiplist", "cespare/xxhash", "valyala/bytebufferpool",
	"gofrs/flock (real flock(2))", "edsrzf/mmap-go (real mmap/msync/munmap)", "Linux tmpfs holding the bytes",
}

var stubbedComponents = []string{
	"sync.Mutex/RWMutex -> vsync (cooperative, scheduler-owned)", "sync.Pool -> vsync.Pool (deterministic LIFO)",
	"os file and directory calls -> vos (real call + journal + durability model)", "syscall.Statfs -> simulated free space",
	"time.Now -> vclock", "snowflake node -> vclock-driven node with the same id layout", "map iteration order -> seeded permutation",
}

var notReached = []string{
	"EnableBackgroundMerge (ticker goroutine) is never enabled", "http/ and datatype/cmd servers", "examples/ benchmark/",
	"I/O errors returned to the engine on its main data path (no listed property defines the expected behaviour)",
}

var commonAssumptions = []string{
	"seeded sampling: a clean batch is evidence over the counted cases, not a proof",
	"directory operations (create, rename, remove) are durable in program order",
	"the wall clock strictly increases between two API calls",
}

// Metas describes each property's check.
var Metas = map[string]*Meta{}

func meta(prop, level, technique, rule string, quick, thorough int, required []string, assumptions ...string) {
	Metas[prop] = &Meta{Level: level, Rule: rule, Assumptions: append(append([]string{}, commonAssumptions...), assumptions...),
		Required: required, Quick: quick, Thorough: thorough, Real: realComponents, Stubbed: stubbedComponents,
		NotReached: notReached, Technique: technique}
}

func init() {
	meta("C01", "exploration", "deterministic simulation: seeded single-client op sequences vs reference map",
		NontrivialRuleText["C01"], 12000, 400000,
		[]string{"rotations", "writes_spanning_blocks", "writes_ending_near_boundary", "oversized_writes", "overwrites", "deletes_present", "batches", "merges", "restarts_after_merge"})
}
