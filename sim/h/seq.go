package h

import (
	"bytes"
	"errors"
	"fmt"
	"os"
	"path/filepath"
	"sort"
	"strings"

	kv "github.com/XiXi-2024/xixi-kv"
	"github.com/XiXi-2024/xixi-kv/vsim/vclock"
	"github.com/XiXi-2024/xixi-kv/vsim/vos"
	"github.com/XiXi-2024/xixi-kv/vsim/vrt"
	"github.com/XiXi-2024/xixi-kv/vsim/vsync"
)

// judgedOps says, per property, which step kinds the property judges in the sequential runner. Misbehaviour of
// any other step abandons the run (it is another property's business).
var judgedOps = map[string]string{
	"C01": "put del get sync list fold batch dump",
	"C02": "restart",
	"C03": "batch",
	"C04": "batch",
	"C05": "batch",
	"C06": "merge restart",
	"C07": "",
	"C10": "iter list fold",
	"C12": "",
	"C13": "put del sync batch restart close",
	"C14": "put del get sync list fold batch iter restart dump stat",
	"C15": "put del get batch dump",
	"C17": "stat merge",
	"C18": "merge",
	"C20": "backup",
}

func (r *Runner) judges(kind string) bool {
	for _, k := range strings.Fields(judgedOps[r.C.Prop]) {
		if k == kind {
			return true
		}
	}
	return false
}

// hostile-caller buffers (C15)
type arena struct {
	buf          []byte
	kOff, vOff   int
	kCap, vCap   int
	kLen, vLen   int
	poisonSerial byte
}

const canaryLen = 64

func newArena() *arena {
	a := &arena{kCap: 8192, vCap: 160 * 1024}
	a.kOff = canaryLen
	a.vOff = a.kOff + a.kCap + canaryLen
	a.buf = make([]byte, a.vOff+a.vCap+canaryLen)
	a.paintCanaries()
	return a
}

func (a *arena) paintCanaries() {
	for _, off := range []int{0, a.kOff + a.kCap, a.vOff + a.vCap} {
		for i := 0; i < canaryLen; i++ {
			a.buf[off+i] = 0xC5
		}
	}
}

func (a *arena) canariesOK() bool {
	for _, off := range []int{0, a.kOff + a.kCap, a.vOff + a.vCap} {
		for i := 0; i < canaryLen; i++ {
			if a.buf[off+i] != 0xC5 {
				return false
			}
		}
	}
	return true
}

// key/val hand out the shared buffers (capacity clipped so an append by the callee cannot silently grow into the
// neighbouring region without being noticed as a canary hit... it would reallocate instead).
func (a *arena) key(k []byte) []byte {
	if len(k) > a.kCap {
		return append([]byte(nil), k...)
	}
	a.kLen = len(k)
	copy(a.buf[a.kOff:], k)
	return a.buf[a.kOff : a.kOff+len(k) : a.kOff+len(k)]
}

func (a *arena) val(v []byte) []byte {
	if v == nil {
		return nil
	}
	if len(v) > a.vCap {
		return append([]byte(nil), v...)
	}
	a.vLen = len(v)
	copy(a.buf[a.vOff:], v)
	return a.buf[a.vOff : a.vOff+len(v) : a.vOff+len(v)]
}

// poison scribbles over both regions with a pattern that changes every time.
func (a *arena) poison() {
	a.poisonSerial++
	p := 0xA0 | (a.poisonSerial & 0x0f)
	for i := 0; i < a.kCap; i++ {
		a.buf[a.kOff+i] = p
	}
	n := a.vLen + 64
	if n > a.vCap {
		n = a.vCap
	}
	for i := 0; i < n; i++ {
		a.buf[a.vOff+i] = p
	}
}

type keptGet struct {
	key  string
	got  []byte
	copy []byte
	step int
}

func (r *Runner) kb(k []byte) []byte {
	if a, ok := r.extra["arena"].(*arena); ok {
		return a.key(k)
	}
	return append([]byte(nil), k...)
}

func (r *Runner) vb(v []byte) []byte {
	if a, ok := r.extra["arena"].(*arena); ok {
		return a.val(v)
	}
	return v
}

// afterCall is the hostile caller's behaviour after every API return: verify the engine did not write into the
// buffers during the call, then scribble over them.
func (r *Runner) afterCall(what string, k, v []byte) {
	a, ok := r.extra["arena"].(*arena)
	if !ok {
		return
	}
	if len(k) <= a.kCap && !bytes.Equal(a.buf[a.kOff:a.kOff+len(k)], k) {
		r.fail("caller-key-modified", what, "%s modified the caller's key buffer", what)
	}
	if v != nil && len(v) <= a.vCap && !bytes.Equal(a.buf[a.vOff:a.vOff+len(v)], v) {
		r.fail("caller-value-modified", what, "%s modified the caller's value buffer", what)
	}
	if !a.canariesOK() {
		r.fail("caller-canary", what, "memory next to the caller's buffers was overwritten during %s", what)
		a.paintCanaries()
	}
	a.poison()
}

// checkKept verifies that slices returned by earlier Get calls still hold what they held.
func (r *Runner) checkKept(when string) {
	kept, _ := r.extra["kept"].([]keptGet)
	for _, g := range kept {
		if !bytes.Equal(g.got, g.copy) {
			r.fail("returned-value-changed", "", "%s: the slice returned by Get(%q) at step %d changed from %s to %s",
				when, g.key, g.step, show(g.copy), show(g.got))
			return
		}
	}
	if a, ok := r.extra["arena"].(*arena); ok {
		// buffers are in poisoned state between calls: the engine must not have written into them later
		p := 0xA0 | (a.poisonSerial & 0x0f)
		if a.poisonSerial > 0 {
			for i := 0; i < a.kCap; i++ {
				if a.buf[a.kOff+i] != p {
					r.fail("caller-buffer-written-later", "key", "%s: the caller's key buffer was written by the engine after the call returned", when)
					return
				}
			}
			n := a.vLen + 64
			if n > a.vCap {
				n = a.vCap
			}
			for i := 0; i < n; i++ {
				if a.buf[a.vOff+i] != p {
					r.fail("caller-buffer-written-later", "value", "%s: the caller's value buffer was written by the engine after the call returned", when)
					return
				}
			}
		}
		if !a.canariesOK() {
			r.fail("caller-canary", "", "%s: memory next to the caller's buffers was overwritten", when)
		}
	}
}

// ---- individual steps ----

func (r *Runner) checkGet(key []byte) {
	want, present := r.M[string(key)]
	var got []byte
	var err error
	kb := r.kb(key)
	if !r.call("Get", func() { got, err = r.DB.Get(kb) }) {
		return
	}
	r.afterCall("Get", key, nil)
	r.note("get %q -> %s %s", key, showN(got), errName(err))
	if len(key) == 0 {
		if !errors.Is(err, kv.ErrKeyIsEmpty) {
			r.fail("get-empty-key", "", "Get(empty key) = %s, %s; want ErrKeyIsEmpty", show(got), errName(err))
		}
		return
	}
	if present {
		if err != nil {
			r.fail("get-error", errName(err), "Get(%q) = %s, want %s", key, errName(err), show(want))
		} else if !beq(got, want) {
			r.fail("get-mismatch", "", "Get(%q) = %s, want %s", key, show(got), show(want))
		} else if r.C.Hostile && len(got) > 0 {
			kept, _ := r.extra["kept"].([]keptGet)
			if len(kept) < 64 {
				kept = append(kept, keptGet{string(key), got, append([]byte(nil), got...), r.step})
				r.extra["kept"] = kept
			}
		}
	} else {
		if err == nil {
			r.fail("get-phantom", "", "Get(%q) = %s, want ErrKeyNotFound", key, show(got))
		} else if !errors.Is(err, kv.ErrKeyNotFound) {
			r.fail("get-error", errName(err), "Get(%q) = %s, want ErrKeyNotFound", key, errName(err))
		}
	}
	r.inc("gets")
}

func (r *Runner) doPut(i int, op *Op) {
	val := op.Val.Bytes()
	var err error
	kb, vb := r.kb(op.Key), r.vb(val)
	if !r.call("Put", func() { err = r.DB.Put(kb, vb) }) {
		return
	}
	r.afterCall("Put", op.Key, val)
	r.wrote(op.Key, val)
	r.note("put %q %d -> %s", op.Key, len(val), errName(err))
	if len(op.Key) == 0 {
		if !errors.Is(err, kv.ErrKeyIsEmpty) {
			r.fail("put-empty-key", "", "Put(empty key) = %s, want ErrKeyIsEmpty", errName(err))
		}
		return
	}
	if err != nil {
		r.fail("put-error", errName(err), "Put(%q, len %d) = %s", op.Key, len(val), errName(err))
		return
	}
	if _, had := r.M[string(op.Key)]; had {
		r.inc("overwrites")
	}
	r.M[string(op.Key)] = val
	r.Ever[string(op.Key)] = true
	r.mutated(i)
	r.inc("puts")
}

func (r *Runner) doDel(i int, op *Op) {
	var err error
	kb := r.kb(op.Key)
	if !r.call("Delete", func() { err = r.DB.Delete(kb) }) {
		return
	}
	r.afterCall("Delete", op.Key, nil)
	r.note("del %q -> %s", op.Key, errName(err))
	if len(op.Key) == 0 {
		if !errors.Is(err, kv.ErrKeyIsEmpty) {
			r.fail("del-empty-key", "", "Delete(empty key) = %s, want ErrKeyIsEmpty", errName(err))
		}
		return
	}
	if err != nil {
		r.fail("del-error", errName(err), "Delete(%q) = %s", op.Key, errName(err))
		return
	}
	if _, had := r.M[string(op.Key)]; had {
		r.inc("deletes_present")
	} else {
		r.inc("deletes_absent")
	}
	delete(r.M, string(op.Key))
	r.mutated(i)
}

func (r *Runner) doList() {
	var keys [][]byte
	if !r.call("ListKeys", func() { keys = r.DB.ListKeys() }) {
		return
	}
	want := sortedKeys(r.M)
	got := make([]string, len(keys))
	for i, k := range keys {
		got[i] = string(k)
	}
	r.note("list -> %q", got)
	if strings.Join(got, "\x00") != strings.Join(want, "\x00") || len(got) != len(want) {
		r.fail("listkeys-mismatch", "", "ListKeys = %q, want %q", clipKeys(got), clipKeys(want))
	}
	r.inc("lists")
}

func sortedKeys(m State) []string {
	ks := make([]string, 0, len(m))
	for k := range m {
		ks = append(ks, k)
	}
	sort.Strings(ks)
	return ks
}

func (r *Runner) doFold(op *Op) {
	want := sortedKeys(r.M)
	snap := r.M // what Fold must visit: the mapping when it was called
	if len(op.Sub) > 0 {
		snap = r.M.clone() // the callback writes (op.Sub: a Put or Delete at the visit numbered Sub[i].N)
	}
	stop := -1
	if op.Flag {
		stop = op.N
	}
	var seen []string
	var bad string
	var err error
	step := r.step
	if !r.call("Fold", func() {
		err = r.DB.Fold(func(k, v []byte) bool {
			seen = append(seen, string(k))
			if w, ok := snap[string(k)]; !ok || !beq(w, v) {
				if bad == "" {
					bad = fmt.Sprintf("Fold visited (%q, %s), the mapping held %s when Fold was called", k, show(v), show(w))
				}
			}
			for si := range op.Sub {
				if w := &op.Sub[si]; w.N == len(seen)-1 && !r.violated() {
					// a write from inside the callback (Fold holds no lock while it calls back): later writes must
					// not disturb the snapshot being visited
					old := r.judging
					r.judging = false
					if w.K == "put" {
						r.doPut(step, w)
					} else {
						r.doDel(step, w)
					}
					r.judging = old
					r.inc("fold_callback_writes")
				}
			}
			return !(stop >= 0 && len(seen) > stop)
		})
	}) {
		return
	}
	r.note("fold stop=%d -> %q %s", stop, seen, errName(err))
	if err != nil {
		r.fail("fold-error", errName(err), "Fold = %s", errName(err))
		return
	}
	if bad != "" {
		r.fail("fold-mismatch", "", "%s", bad)
		return
	}
	exp := want
	if stop >= 0 && stop+1 < len(want) {
		exp = want[:stop+1]
	}
	if strings.Join(seen, "\x00") != strings.Join(exp, "\x00") || len(seen) != len(exp) {
		r.fail("fold-sequence", "", "Fold visited %q, want %q", clipKeys(seen), clipKeys(exp))
	}
	r.inc("folds")
}

func (r *Runner) doSync() {
	var err error
	if !r.call("Sync", func() { err = r.DB.Sync() }) {
		return
	}
	r.note("sync -> %s", errName(err))
	if err != nil {
		r.fail("sync-error", errName(err), "Sync = %s", errName(err))
	}
	r.inc("syncs")
}

func (r *Runner) doMerge() {
	var err error
	before := len(r.dataFiles("db"))
	if r.C.Prop == "C06" {
		r.inc("merge_attempts")
	}
	r.extra["inMerge"] = true
	ok := r.call("Merge", func() { err = r.DB.Merge() })
	r.extra["inMerge"] = false
	if !ok {
		return
	}
	// Merge's return value is not part of the C14 transcript: whether the rewritten records fit below the marker id
	// depends on the order in which Merge visits the files, which is map-iteration order (random in production)
	if r.C.Prop != "C14" {
		r.note("merge -> %s", errName(err))
	}
	r.extra["lastMergeErr"] = err
	if err != nil {
		// "Merge either reports an error and changes no key's value": an error is a legal outcome everywhere; the
		// reads and dumps that follow check that nothing changed. Only two refusals are judged by name.
		r.inc("merge_errors")
		r.inc("merge_error_" + errName(err))
		if errors.Is(err, kv.ErrNoEnoughSpaceForMerge) && r.C.Free == 0 && r.C.Prop == "C17" {
			r.fail("merge-refused-nospace", "", "Merge refused with ErrNoEnoughSpaceForMerge although free space is ample")
		}
		// a failed attempt may have removed the finished merge of an earlier attempt
		if r.FS.Live.File("db-merge/000000000.merge-finished") == nil {
			r.extra["mergePending"] = false
		}
		return
	}
	r.inc("merges")
	r.extra["mergePending"] = true
	r.extra["filesBeforeMerge"] = before
	r.extra["mergeStep"] = r.step
	snap := map[string]map[string]bool{}
	for k, v := range r.M {
		snap[k] = map[string]bool{string(v): true}
	}
	r.extra["liveAtMerge"] = snap
	if r.C.Prop == "C18" {
		r.checkHint()
	}
}

func (r *Runner) allSameFileSize() bool {
	for _, c := range r.C.Cfgs {
		if c.FileSize != r.C.Cfg.FileSize {
			return false
		}
	}
	return true
}

func (r *Runner) doRestart(op *Op) {
	if r.Cnt["bulk_loads"] > 0 && op.Cfg != nil && op.Cfg.IO == 1 && op.Cfg.FileSize < 2048 {
		op.Cfg.FileSize = 2048 // hundreds of one-record mapped files make a run take minutes (see the bulk load)
	}
	pre, f := dumpDB(r.DB, r.Ever)
	old := r.judging
	if f != "" || diffState(pre, r.M) != "" {
		// the live view is already wrong: not a restart problem
		r.judging = false
		r.fail("pre-restart-dump", "", "live dump before Close differs from the model: %s %s", f, diffState(pre, r.M))
		r.judging = old
		return
	}
	if _, f := r.activeDataFile(); f != nil {
		if r.C.Prop == "C02" {
			r.inc(fmt.Sprintf("restart_end_offset_kib_%02d", (f.Size%blockSz)/1024)) // spread of log-end offsets, per KiB
		}
		if d := f.Size % blockSz; d != 0 && blockSz-d <= 9 {
			r.inc("restart_file_end_near_boundary")
		} else if d == 0 && f.Size > 0 {
			r.inc("restart_file_end_on_boundary")
		}
	}
	if op.K == "kill" {
		// the process dies between two operations: no Close, no flush, no truncation of pre-extended mapped files;
		// descriptors and mappings vanish, the page cache (and so the files) keeps every store. The history then
		// continues on the recovered database - every acknowledged mutation must be there (C03's promise for a
		// process crash), so the reference model carries on unchanged and the property's own oracles keep judging.
		if len(op.Sub) > 0 {
			// ... and it dies inside a batch: operations staged (pieces larger than the file-size limit already flushed
			// and indexed), Commit never reached. Nothing of the batch may be visible afterwards, and what it left in
			// the log is garbage that the recomputed counters must charge as reclaimable.
			db := r.DB
			p, _ := protect(func() {
				b := db.NewBatch(kv.BatchOptions{})
				for si := range op.Sub {
					switch w := &op.Sub[si]; w.K {
					case "bput":
						_ = b.Put(append([]byte(nil), w.Key...), w.Val.Bytes())
					case "bdel":
						_ = b.Delete(append([]byte(nil), w.Key...))
					}
				}
			})
			if p != "" {
				r.judging = false
				r.fail("kill-batch", "", "staging the batch that the kill interrupts: %s", clip(p, 200))
				return
			}
			r.inc("fault_process_killed_inside_a_batch")
			if r.C.Prop == "C17" {
				r.FS.Mark(-6)
				r.trackLimits() // what the batch flushed was written under the configuration that is about to change
			}
		}
		r.FS.Mark(-5)
		if r.C.Prop == "C13" {
			// what the dead process left unflushed is not the new process's to answer for: the policy counts what a
			// process appends itself (the lenient reading; nothing obliges Open to flush a recovered log)
			r.scanJournal()
			for _, f := range r.FS.Live.Inodes {
				f.Unsynced = nil
			}
			if st, _ := r.extra["sync"].(*syncTrack); st != nil {
				st.unsynced = map[int]int{}
			}
		}
		r.FS.CloseAll()
		r.DB = nil
		vsync.ResetPools()
		r.inc("fault_process_killed_between_operations")
		old = false // what the recovery itself gets wrong is C03's business: the run is abandoned, not judged
		r.judging = false
	} else {
		r.judging = r.judges("close") || r.C.Prop == "C13"
		if r.C.Prop == "C02" {
			r.judging = false
		}
		okc := r.closeDB()
		r.judging = old
		if !okc {
			return
		}
		r.afterClose()
		if r.violated() {
			return
		}
	}
	if op.Cfg != nil {
		if *op.Cfg != r.Cfg {
			r.inc("restart_config_changed")
		}
		r.Cfg = *op.Cfg
	}
	pending, _ := r.extra["mergePending"].(bool)
	if !r.openDB() {
		return
	}
	r.restarts++
	r.inc("restarts")
	post, f := dumpDB(r.DB, r.Ever)
	if f != "" {
		r.fail("post-restart-dump", "", "dump after restart: %s", f)
		return
	}
	if d := diffState(post, State(pre.Vals)); d != "" {
		r.fail("restart-mismatch", "", "after restart (%s): %s", r.Cfg, d)
		return
	}
	r.note("restart -> %d keys", len(post.Keys))
	if op.K == "kill" {
		r.judging = r.judges("restart")
	}
	if pending {
		r.afterAdoptingRestart()
		r.extra["mergePending"] = false
	}
}

// afterClose / afterAdoptingRestart are hooks refined by individual properties.
func (r *Runner) afterClose() {
	if r.C.Prop == "C13" {
		r.checkAllSynced("Close")
	}
	if r.C.Prop == "C02" || r.C.Prop == "C11" {
		// an mmap file must have been shrunk back to its logical size by Close: no file may end in a block of
		// zeros longer than any padding (a pre-extended file is 512 MiB)
		for _, n := range r.dataFiles("db") {
			f := r.FS.Live.File(n)
			if f != nil && f.Size > int64(len(f.Data))+(32*1024) {
				r.judging = true
				r.fail("close-left-file-extended", "", "after Close %s has physical size %d but only %d bytes of content", n, f.Size, len(f.Data))
			}
		}
	}
}

func (r *Runner) afterAdoptingRestart() {
	r.inc("restarts_after_merge")
	if _, err := os.Stat(r.mergeDir()); err == nil {
		if r.C.Prop == "C06" {
			r.fail("merge-dir-left", "", "the merge directory still exists after the adopting restart")
		}
	} else {
		r.inc("merge_dir_gone")
	}
	if r.C.Prop == "C06" && !r.violated() {
		step, _ := r.extra["mergeStep"].(int)
		snap, _ := r.extra["liveAtMerge"].(map[string]map[string]bool)
		r.checkAdopted(step, snap)
	}
}

func (r *Runner) doStat() {
	var st *kv.Stat
	if !r.call("Stat", func() { st = r.DB.Stat() }) {
		return
	}
	if r.C.Prop == "C14" {
		// sizes and file counts are layout: comparable only with equal DataFileSize and before any Merge (whose
		// outcome depends on map-iteration order)
		if r.allSameFileSize() && r.Cnt["merges"]+r.Cnt["merge_errors"] == 0 {
			r.note("stat -> %+v", *st)
		} else {
			r.note("stat -> keys %d", st.KeyNum)
		}
	}
	if st.KeyNum != len(r.M) {
		r.fail("stat-keynum", "", "Stat.KeyNum = %d, model has %d keys", st.KeyNum, len(r.M))
	}
}

// doBatch executes a batch step: Sub holds bput/bdel/bget/commit operations.
func (r *Runner) doBatch(i int, op *Op) {
	var b *kv.Batch
	if !r.call("NewBatch", func() { b = r.DB.NewBatch(kv.BatchOptions{Sync: op.Flag}) }) {
		return
	}
	type staged struct {
		val []byte
		del bool
	}
	overlay := map[string]staged{}
	var order []string
	committed := false
	for si := range op.Sub {
		s := &op.Sub[si]
		if r.violated() {
			break
		}
		switch s.K {
		case "bput":
			val := s.Val.Bytes()
			var err error
			kb, vb := r.kb(s.Key), r.vb(val)
			if !r.call("Batch.Put", func() { err = b.Put(kb, vb) }) {
				break
			}
			r.afterCall("Batch.Put", s.Key, val)
			r.wrote(s.Key, val)
			r.note("bput %q %d -> %s", s.Key, len(val), errName(err))
			switch {
			case len(s.Key) == 0:
				if !errors.Is(err, kv.ErrKeyIsEmpty) {
					r.fail("batch-empty-key", "", "Batch.Put(empty key) = %s", errName(err))
				}
			case committed:
				if !errors.Is(err, kv.ErrBatchCommitted) {
					r.fail("batch-use-after-commit", "Put", "Batch.Put on a committed batch = %s, want ErrBatchCommitted", errName(err))
				}
			case err != nil:
				r.fail("batch-put-error", errName(err), "Batch.Put(%q, len %d) = %s", s.Key, len(val), errName(err))
			default:
				if _, ok := overlay[string(s.Key)]; ok {
					r.inc("batch_repeat_key")
				}
				overlay[string(s.Key)] = staged{val: val}
				order = append(order, string(s.Key))
			}
		case "bdel":
			var err error
			kb := r.kb(s.Key)
			if !r.call("Batch.Delete", func() { err = b.Delete(kb) }) {
				break
			}
			r.afterCall("Batch.Delete", s.Key, nil)
			r.note("bdel %q -> %s", s.Key, errName(err))
			switch {
			case len(s.Key) == 0:
				if !errors.Is(err, kv.ErrKeyIsEmpty) {
					r.fail("batch-empty-key", "", "Batch.Delete(empty key) = %s", errName(err))
				}
			case committed:
				if !errors.Is(err, kv.ErrBatchCommitted) {
					r.fail("batch-use-after-commit", "Delete", "Batch.Delete on a committed batch = %s, want ErrBatchCommitted", errName(err))
				}
			case err != nil:
				r.fail("batch-delete-error", errName(err), "Batch.Delete(%q) = %s", s.Key, errName(err))
			default:
				if st, ok := overlay[string(s.Key)]; ok {
					r.inc("batch_repeat_key")
					if !st.del {
						r.inc("batch_put_then_delete")
					}
				}
				overlay[string(s.Key)] = staged{del: true}
				order = append(order, string(s.Key))
			}
		case "bget":
			var got []byte
			var err error
			kb := r.kb(s.Key)
			if !r.call("Batch.Get", func() { got, err = b.Get(kb) }) {
				break
			}
			r.afterCall("Batch.Get", s.Key, nil)
			r.note("bget %q -> %s %s", s.Key, showN(got), errName(err))
			if !r.judges("batch") && r.C.Prop != "C01" {
				break
			}
			switch {
			case len(s.Key) == 0:
				if !errors.Is(err, kv.ErrKeyIsEmpty) {
					r.fail("batch-empty-key", "", "Batch.Get(empty key) = %s", errName(err))
				}
			case committed:
				if !errors.Is(err, kv.ErrBatchCommitted) {
					r.fail("batch-use-after-commit", "Get", "Batch.Get on a committed batch = %s, want ErrBatchCommitted", errName(err))
				}
			default:
				var want []byte
				present := false
				src := "database"
				if st, ok := overlay[string(s.Key)]; ok {
					src = "staged"
					want, present = st.val, !st.del
				} else if v, ok := r.M[string(s.Key)]; ok {
					want, present = v, true
					r.inc("batch_get_from_db")
				}
				if present {
					if err != nil || !beq(got, want) {
						r.fail("batch-get-mismatch", src, "Batch.Get(%q) = %s, %s; want %s (%s)", s.Key, show(got), errName(err), show(want), src)
					}
				} else if !errors.Is(err, kv.ErrKeyNotFound) {
					r.fail("batch-get-mismatch", src+"-absent", "Batch.Get(%q) = %s, %s; want ErrKeyNotFound (%s)", s.Key, show(got), errName(err), src)
				}
			}
		case "commit":
			var err error
			if !r.call("Batch.Commit", func() { err = b.Commit() }) {
				break
			}
			r.note("commit -> %s", errName(err))
			if committed {
				if !errors.Is(err, kv.ErrBatchCommitted) {
					r.fail("batch-use-after-commit", "Commit", "second Commit = %s, want ErrBatchCommitted", errName(err))
				}
				break
			}
			if err != nil {
				r.fail("commit-error", errName(err), "Commit = %s", errName(err))
				break
			}
			committed = true
			for _, k := range order {
				st := overlay[k]
				if st.del {
					delete(r.M, k)
				} else {
					r.M[k] = st.val
					r.Ever[k] = true
				}
			}
			r.mutated(i)
			r.inc("batches")
			if op.Flag {
				r.inc("sync_batches")
			}
			r.add("batch_ops", int64(len(order)))
		}
	}
	if r.violated() {
		return
	}
	if !committed {
		r.Infra = "generated batch without commit"
	}
}

// doIter executes an iterator session against a frozen sorted-slice model.
func (r *Runner) doIter(i int, op *Op) {
	prefix := []byte(op.Key)
	reverse := op.Flag
	var it *kv.Iterator
	if !r.call("NewIterator", func() { it = r.DB.NewIterator(kv.IteratorOptions{Prefix: prefix, Reverse: reverse}) }) {
		return
	}
	// frozen model
	var keys []string
	for _, k := range sortedKeys(r.M) {
		if bytes.HasPrefix([]byte(k), prefix) {
			keys = append(keys, k)
		}
	}
	if reverse {
		for a, b := 0, len(keys)-1; a < b; a, b = a+1, b-1 {
			keys[a], keys[b] = keys[b], keys[a]
		}
	}
	vals := map[string][]byte{}
	for _, k := range keys {
		vals[k] = r.M[k]
	}
	pos := 0
	check := func(what string) {
		var valid bool
		var key, val []byte
		var verr error
		if !r.call("Iterator."+what, func() {
			valid = it.Valid()
			if valid {
				key = it.Key()
				val, verr = it.Value()
			}
		}) {
			return
		}
		r.note("iter %s -> %v %q %s", what, valid, key, showN(val))
		wantValid := pos < len(keys)
		if valid != wantValid {
			r.fail("iter-valid", what, "after %s: Valid() = %v, model says %v (pos %d of %d, prefix %q, reverse %v)", what, valid, wantValid, pos, len(keys), prefix, reverse)
			return
		}
		if !valid {
			return
		}
		if string(key) != keys[pos] {
			r.fail("iter-key", what, "after %s: Key() = %q, want %q (pos %d, prefix %q, reverse %v)", what, key, keys[pos], pos, prefix, reverse)
			return
		}
		if verr != nil || !beq(val, vals[keys[pos]]) {
			r.fail("iter-value", what, "after %s: Value() of %q = %s, %s; want the value at creation %s", what, key, show(val), errName(verr), show(vals[keys[pos]]))
		}
	}
	for si := range op.Sub {
		s := &op.Sub[si]
		if r.violated() {
			break
		}
		switch s.K {
		case "rewind":
			if r.call("Iterator.Rewind", func() { it.Rewind() }) {
				pos = 0
				check("Rewind")
				r.inc("iter_rewinds")
			}
		case "seek":
			target := []byte(s.Key)
			if r.call("Iterator.Seek", func() { it.Seek(target) }) {
				// first key at/after target in iteration order, searching from the start of the frozen slice;
				// generated targets are never behind the cursor, so this is >= pos
				np := len(keys)
				for j, k := range keys {
					c := bytes.Compare([]byte(k), target)
					if (!reverse && c >= 0) || (reverse && c <= 0) {
						np = j
						break
					}
				}
				if np < pos {
					r.Infra = "generated a backward seek"
					return
				}
				pos = np
				check("Seek")
				r.inc("iter_seeks")
			}
		case "next":
			if r.call("Iterator.Next", func() { it.Next() }) {
				if pos < len(keys) {
					pos++
				}
				check("Next")
				r.inc("iter_nexts")
			}
		default:
			// a database operation interleaved with the session (auxiliary)
			old := r.judging
			r.judging = false
			r.dispatch(i, s)
			r.judging = old
			r.inc("iter_interleaved_writes")
		}
	}
	r.call("Iterator.Close", func() { it.Close() })
	r.inc("iter_sessions")
	if len(keys) > 1 {
		r.inc("iter_sessions_multi")
	}
}

// backupDir names the destination of backup n in one of several legal ways (op.F selects): a fresh directory, one
// that already exists (empty), one named with a trailing separator, one whose name extends the source's ("db2-n"),
// one whose path is a string prefix of the source's.
func (r *Runner) backupDir(op *Op) string {
	n := op.N
	switch int(op.F) {
	case 1:
		d := filepath.Join(r.Root, fmt.Sprintf("bk%d", n))
		_ = vos.MkdirAll(d, 0o755)
		return d
	case 2:
		return filepath.Join(r.Root, fmt.Sprintf("bk%d", n)) + string(filepath.Separator)
	case 3:
		return filepath.Join(r.Root, fmt.Sprintf("db2-%d", n))
	case 4:
		if n == 1 {
			return filepath.Join(r.Root, "d") // a sibling whose path is a string prefix of the source's (".../d" of ".../db")
		}
	case 5:
		if prev, _ := r.extra["lastBackupDir"].(string); prev != "" {
			return prev // the directory of the previous backup (which has been opened and closed since)
		}
	}
	return filepath.Join(r.Root, fmt.Sprintf("bk%d", n))
}

func (r *Runner) doBackup(op *Op) {
	dir := r.backupDir(op)
	if prev, _ := r.extra["lastBackupDir"].(string); prev != "" && prev == dir {
		r.inc("backups_into_older_backup")
	}
	r.extra["lastBackupDir"] = dir
	hadLock := map[string]bool{} // an older backup in dir has been opened since: that Open created a lock file there
	if before, e := os.ReadDir(dir); e == nil {
		for _, e := range before {
			hadLock[e.Name()] = true
		}
	}
	var err error
	if !r.call("Backup", func() { err = r.DB.Backup(dir) }) {
		return
	}
	if err != nil {
		r.fail("backup-error", errName(err), "Backup = %s", errName(err))
		return
	}
	ents, _ := os.ReadDir(dir)
	for _, e := range ents {
		if strings.HasSuffix(e.Name(), ".lock") && !hadLock[e.Name()] {
			r.fail("backup-copied-lock", "", "the backup contains the lock file %s", e.Name())
			return
		}
	}
	// the copy must open as an independent database while the source is still open
	var cp *kv.DB
	if !r.call("Open(copy)", func() { cp, err = kv.Open(r.options(r.Cfg, dir)) }) {
		return
	}
	if err != nil {
		r.fail("backup-open-error", errName(err), "opening the backup failed: %s", errName(err))
		return
	}
	d, f := dumpDB(cp, r.Ever)
	if f != "" {
		r.fail("backup-dump", "", "dump of the backup: %s", f)
	} else if diff := diffState(d, r.M); diff != "" {
		r.fail("backup-mismatch", "", "backup differs from the source at Backup time: %s", diff)
	}
	r.call("Close(copy)", func() { _ = cp.Close() })
	r.inc("backups")
	if r.Cfg.IO == 1 {
		r.inc("backups_mmap")
	}
	r.extra["backedUp"] = true
}

// dispatch executes one step.
func (r *Runner) dispatch(i int, op *Op) {
	switch op.K {
	case "put":
		r.doPut(i, op)
		if !r.violated() && (r.judges("get") || r.C.Prop == "C20") {
			r.checkGet(op.Key)
		}
	case "del":
		r.doDel(i, op)
		if !r.violated() && r.judges("get") {
			r.checkGet(op.Key)
		}
	case "get":
		old := r.judging
		if r.C.Prop == "C02" {
			r.judging = r.restarts > 0
		}
		r.checkGet(op.Key)
		r.judging = old
	case "sync":
		r.doSync()
	case "merge":
		r.doMerge()
	case "list":
		r.doList()
	case "fold":
		r.doFold(op)
	case "stat":
		r.doStat()
	case "restart", "kill":
		r.doRestart(op)
	case "batch":
		r.doBatch(i, op)
	case "iter":
		r.doIter(i, op)
	case "backup":
		r.doBackup(op)
	case "bulk":
		// n keys loaded in a scattered order (stride 7 over the key numbers), one Put each
		n := op.N
		for j := 0; j < n && !r.violated(); j++ {
			idx := (j * 7) % n
			if n%7 == 0 {
				idx = (j*11 + 3) % n
			}
			r.doPut(i, &Op{K: "put", Key: Bytes(fmt.Sprintf("%s%04d", op.Key, idx)), Val: &Val{Len: op.Val.Len, Tag: op.Val.Tag + uint32(j)}})
		}
		r.inc("bulk_loads")
		r.add("bulk_keys", int64(n))
	case "sleep":
	default:
		r.Infra = "unknown op kind " + op.K
	}
}

// RunSeq executes a single-client case under the scheduler.
func (r *Runner) RunSeq() {
	if err := r.begin(); err != nil {
		r.Infra = err.Error()
		return
	}
	defer r.end()
	if r.C.Hostile {
		r.extra["arena"] = newArena()
	}
	if r.C.Free > 0 {
		r.inc("fault_low_free_space_runs")
	}
	if r.C.FaultAt > 0 {
		// fault arm: the n-th mutating call inside the merge side directory fails with an I/O error
		n := 0
		r.FS.FaultFn = func(k vos.Kind, rel string) error {
			// only while Merge itself runs: the statement says what Merge must do on an error, nothing about adoption
			if in, _ := r.extra["inMerge"].(bool); !in || !strings.HasPrefix(rel, "db-merge") {
				return nil
			}
			switch k {
			case vos.KOpen, vos.KWrite, vos.KSync, vos.KMSync, vos.KTruncate, vos.KMkdir, vos.KMap:
				n++
				if n == r.C.FaultAt {
					return vos.ErrInjected()
				}
			}
			return nil
		}
	}
	pol := r.C.Sched
	if pol.Mode == "" {
		pol.Mode = "seq"
	}
	s := vrt.NewSched(pol)
	s.Go("client", r.seqMain)
	s.Run()
	r.afterSched(s)
}

// afterSched converts scheduler-level outcomes (deadlock, fatal error, step cap) into results.
func (r *Runner) afterSched(s *vrt.Sched) {
	r.Traces = append(r.Traces, s.TraceHash)
	if s.CapHit {
		r.Infra = "step cap hit"
		return
	}
	if s.Deadlock != "" {
		r.fail("deadlock", "", "deadlock: %s", s.Deadlock)
	}
	if s.Fatal != "" {
		r.fail("fatal", s.Fatal, "%s", s.Fatal)
	}
	for _, t := range s.Tasks() {
		if t.Panic != "" {
			r.fail("panic", "task", "task %s: %s", t.Name, clip(t.Panic, 400))
		}
	}
}

// preseed creates the empty high-numbered data file of a "long-lived" directory (Case.BaseFile).
func (r *Runner) preseed() {
	if r.C.BaseFile == 0 {
		return
	}
	dir := filepath.Join(r.Root, "db")
	if err := vos.MkdirAll(dir, 0o755); err != nil {
		r.Infra = err.Error()
		return
	}
	f, err := vos.OpenFile(filepath.Join(dir, fmt.Sprintf("%09d.data", r.C.BaseFile)), os.O_CREATE|os.O_RDWR, 0o644)
	if err != nil {
		r.Infra = err.Error()
		return
	}
	_ = f.Close()
	r.inc("high_file_id_runs")
}

func (r *Runner) seqMain() {
	r.step = -1
	r.preseed()
	if r.Infra != "" {
		return
	}
	r.judging = r.judges("open")
	if !r.openDB() {
		if r.V == nil && r.Aborted == "" {
			r.Aborted = "initial Open failed"
		}
		return
	}
	ops := r.C.Clients[0]
	for i := 0; ; i++ {
		var op *Op
		if r.gen != nil {
			op = r.gen(r, i)
			if op == nil {
				break
			}
			inflightStep(op)
			r.C.Clients[0] = append(r.C.Clients[0], *op)
			op = &r.C.Clients[0][len(r.C.Clients[0])-1]
		} else {
			if i >= len(ops) {
				break
			}
			op = &ops[i]
		}
		r.step = i
		r.FS.CurOp = i
		r.opClock = append(r.opClock, vclock.NowNs())
		r.judging = r.judges(op.K)
		r.dispatch(i, op)
		if r.violated() {
			return
		}
		r.afterStep(i, op)
		if r.violated() {
			return
		}
		r.advanceClock(op)
	}
	r.step = len(r.C.Clients[0])
	r.FS.CurOp = r.step
	r.finalChecks()
}

// afterStep runs the per-step invariants of the property under check.
func (r *Runner) afterStep(i int, op *Op) {
	r.FS.Mark(int64(i))
	switch r.C.Prop {
	case "C01", "C15":
		r.judging = true
		if r.C.Hostile {
			r.checkKept(fmt.Sprintf("after step %d", i))
		}
		if (i+1)%5 == 0 && op.K != "restart" {
			r.checkDump(fmt.Sprintf("after step %d (%s)", i, op.K))
		}
	case "C13":
		r.judging = true
		r.checkSyncPolicy(i, op)
	case "C17":
		r.judging = true
		r.checkStatExact(fmt.Sprintf("after step %d (%s)", i, op.K))
	case "C14":
		r.judging = true
		if (i+1)%7 == 0 {
			r.checkDump(fmt.Sprintf("after step %d (%s)", i, op.K))
		}
	}
	r.StateHs = append(r.StateHs, vrt.Mix(r.M.hash(), uint64(len(r.dataFiles("db")))))
}

func (r *Runner) finalChecks() {
	for k, v := range r.FS.FaultsFired {
		r.add("fault_io_error_"+k, int64(v))
	}
	switch r.C.Prop {
	case "C01", "C15", "C14", "C05", "C10":
		r.judging = r.C.Prop != "C10"
		r.checkDump("at end of run")
		if r.C.Hostile {
			r.judging = true
			r.checkKept("at end of run")
		}
	}
	if r.violated() {
		return
	}
	r.judging = r.C.Prop == "C13"
	r.closeDB()
	if r.violated() {
		return
	}
	r.afterClose()
	if r.violated() {
		return
	}
	r.FS.Mark(-1)
	if err := r.FS.CheckAgainstDisk(); err != nil {
		r.Infra = "disk model diverged from the real directory: " + err.Error()
	}
	r.probeLayout()
}

// probeLayout derives reach probes from the journal (rotations, block-spanning writes, padding, ...).
func (r *Runner) probeLayout() {
	const blk = 32 * 1024
	created := 0
	for i := range r.FS.Journal {
		e := &r.FS.Journal[i]
		switch e.Kind {
		case 1: // create
			if strings.HasPrefix(e.Path, "db/") && strings.HasSuffix(e.Path, ".data") {
				created++
			}
		case 3, 4: // write, mwrite
			if !strings.HasSuffix(e.Path, ".data") {
				continue
			}
			end := e.Off + int64(len(e.Data))
			if e.Off/blk != (end-1)/blk && len(e.Data) > 0 {
				r.inc("writes_spanning_blocks")
			}
			if d := end % blk; d != 0 && (blk-d) <= 8 {
				r.inc("writes_ending_near_boundary")
			}
			if end%blk == 0 && len(e.Data) > 0 {
				r.inc("writes_ending_on_boundary")
			}
			if int64(len(e.Data)) > r.Cfg.FileSize {
				r.inc("oversized_writes")
			}
		}
	}
	if created > 1 {
		r.add("rotations", int64(created-1))
	}
	for _, n := range r.dataFiles("db") {
		f := r.FS.Live.File(n)
		if f != nil && f.Size > 0 && f.Size%blk == 0 {
			r.inc("files_ending_on_boundary")
		}
		if f != nil && f.Size == 0 {
			r.inc("empty_data_files")
		}
	}
}
