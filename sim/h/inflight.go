package h

import (
	"bufio"
	"encoding/json"
	"fmt"
	"os"
)

// The in-flight log lets the driver recover the case of a run that killed its worker process (SIGBUS from a
// stale mapping, a runtime fatal error, a race-detector halt): a header line with the case minus its adaptive
// client program, then one line per step appended just before the step executes.

var inflight *os.File

func inflightBegin(c *Case) {
	path := os.Getenv("VSIM_INFLIGHT")
	if path == "" {
		return
	}
	if inflight == nil {
		f, err := os.OpenFile(path, os.O_CREATE|os.O_RDWR, 0o644)
		if err != nil {
			return
		}
		inflight = f
	}
	_ = inflight.Truncate(0)
	_, _ = inflight.Seek(0, 0)
	b, _ := json.Marshal(c)
	inflight.Write(append(b, '\n'))
}

func inflightStep(op *Op) {
	if inflight == nil {
		return
	}
	b, _ := json.Marshal(op)
	inflight.Write(append(b, '\n'))
}

// ReadInflight reassembles the case from an in-flight log.
func ReadInflight(path string) (*Case, error) {
	f, err := os.Open(path)
	if err != nil {
		return nil, err
	}
	defer f.Close()
	sc := bufio.NewScanner(f)
	sc.Buffer(make([]byte, 1<<20), 1<<28)
	if !sc.Scan() {
		return nil, fmt.Errorf("empty in-flight log")
	}
	var c Case
	if err := json.Unmarshal(sc.Bytes(), &c); err != nil {
		return nil, err
	}
	adaptive := len(c.Clients) == 1 && len(c.Clients[0]) == 0
	for sc.Scan() {
		var op Op
		if err := json.Unmarshal(sc.Bytes(), &op); err != nil {
			break
		}
		if adaptive {
			c.Clients[0] = append(c.Clients[0], op)
		}
	}
	return &c, nil
}
