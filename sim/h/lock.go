package h

import (
	"bufio"
	"encoding/json"
	"errors"
	"fmt"
	"io"
	"os"
	"os/exec"
	"path/filepath"
	"runtime"
	"runtime/debug"
	"sort"
	"strings"
	"time"

	kv "github.com/XiXi-2024/xixi-kv"
	"github.com/XiXi-2024/xixi-kv/vsim/vos"
	"github.com/XiXi-2024/xixi-kv/vsim/vrt"
	"github.com/anishathalye/porcupine"
)

func init() {
	arms["lock"] = runLock
	generators["C16"] = genLock
}

// ---- the other process: a real child of the simulator, driven in lock-step over a pipe ----

type peerProc struct {
	cmd *exec.Cmd
	in  io.WriteCloser
	out *bufio.Reader
}

var thePeer *peerProc

func getPeer() (*peerProc, error) {
	if thePeer != nil {
		return thePeer, nil
	}
	cmd := exec.Command(os.Args[0], "peer")
	in, err := cmd.StdinPipe()
	if err != nil {
		return nil, err
	}
	out, err := cmd.StdoutPipe()
	if err != nil {
		return nil, err
	}
	cmd.Stderr = os.Stderr
	if err := cmd.Start(); err != nil {
		return nil, err
	}
	thePeer = &peerProc{cmd: cmd, in: in, out: bufio.NewReader(out)}
	return thePeer, nil
}

// PeerCmd is one command to the peer process.
type PeerCmd struct {
	Cmd string `json:"cmd"` // open | close | put | reset
	Dir string `json:"dir,omitempty"`
	Cfg Config `json:"cfg"`
	Key string `json:"key,omitempty"`
	Val string `json:"val,omitempty"`
}

func (p *peerProc) do(c PeerCmd) (string, error) {
	b, _ := json.Marshal(c)
	if _, err := p.in.Write(append(b, '\n')); err != nil {
		return "", err
	}
	line, err := p.out.ReadString('\n')
	if err != nil {
		return "", err
	}
	return strings.TrimSpace(line), nil
}

// PeerMain is the body of `simbin peer`.
func PeerMain() {
	debug.SetGCPercent(-1)
	in := bufio.NewScanner(os.Stdin)
	in.Buffer(make([]byte, 1<<16), 1<<20)
	out := bufio.NewWriter(os.Stdout)
	var db *kv.DB
	reply := func(s string) { out.WriteString(s + "\n"); out.Flush() }
	for in.Scan() {
		var c PeerCmd
		if err := json.Unmarshal(in.Bytes(), &c); err != nil {
			reply("err bad command")
			continue
		}
		switch c.Cmd {
		case "open":
			var err error
			var d *kv.DB
			p, _ := protect(func() {
				d, err = kv.Open(kv.Options{DirPath: c.Dir, DataFileSize: c.Cfg.FileSize, SyncStrategy: kv.SyncStrategy(c.Cfg.Sync),
					BytesPerSync: c.Cfg.BPS, IndexType: c.Cfg.Index, FileIOType: c.Cfg.IO, ShardNum: c.Cfg.Shards})
			})
			switch {
			case p != "":
				reply("panic " + strings.ReplaceAll(clip(p, 200), "\n", " "))
			case errors.Is(err, kv.ErrDatabaseIsUsing):
				reply("inuse")
			case err != nil:
				reply("err " + strings.ReplaceAll(err.Error(), "\n", " "))
			default:
				db = d
				reply("ok")
			}
		case "close":
			if db == nil {
				reply("err not open")
				continue
			}
			var err error
			p, _ := protect(func() { err = db.Close() })
			db = nil
			if p != "" || err != nil {
				reply(fmt.Sprintf("err close: %s %v", clip(p, 100), err))
			} else {
				reply("ok")
			}
		case "put":
			if db == nil {
				reply("err not open")
				continue
			}
			var err error
			var got []byte
			p, _ := protect(func() {
				err = db.Put([]byte(c.Key), []byte(c.Val))
				if err == nil {
					got, err = db.Get([]byte(c.Key))
				}
			})
			if p != "" || err != nil || string(got) != c.Val {
				reply(fmt.Sprintf("err put/get: %s %v %q", clip(p, 100), err, got))
			} else {
				reply("ok")
			}
		case "reset":
			if db != nil {
				protect(func() { _ = db.Close() })
				db = nil
			}
			debug.SetGCPercent(100)
			runtime.GC()
			runtime.GC()
			debug.SetGCPercent(-1)
			reply("ok")
		default:
			reply("err unknown")
		}
	}
}

// ---- history model: who holds the directory ----

type lockIn struct {
	kind  string // acquire | load-ok | load-fail | release-failed | inuse | close | damage | repair
	party int
}

type lockState struct {
	holder  int // 0 none, p = party p holds, -p = party p holds transiently inside a failing Open
	damaged bool
}

var lockModel = porcupine.Model{
	Init: func() interface{} { return lockState{} },
	Step: func(state, input, output interface{}) (bool, interface{}) {
		s := state.(lockState)
		in := input.(lockIn)
		switch in.kind {
		case "acquire": // the flock is taken early in Open ...
			if s.holder != 0 {
				return false, s
			}
			s.holder = -in.party
			return true, s
		case "load-ok": // ... the data files are read later in the same call
			if s.holder != -in.party || s.damaged {
				return false, s
			}
			s.holder = in.party
			return true, s
		case "load-fail": // the load fails at some instant (it saw the damage) ...
			if s.holder != -in.party || !s.damaged {
				return false, s
			}
			s.holder = -(in.party + 1000)
			return true, s
		case "release-failed": // ... and the lock is released at a later instant of the same call
			if s.holder != -(in.party + 1000) {
				return false, s
			}
			s.holder = 0
			return true, s
		case "inuse":
			return s.holder != 0, s
		case "close":
			if s.holder != in.party {
				return false, s
			}
			s.holder = 0
			return true, s
		case "damage":
			s.damaged = true
			return true, s
		case "repair":
			s.damaged = false
			return true, s
		}
		return false, s
	},
	Equal: func(a, b interface{}) bool { return a.(lockState) == b.(lockState) },
}

type lockEv struct {
	party     int
	kind      string
	call, ret uint64
	detail    string
}

type lockParty struct {
	id      int
	db      *kv.DB
	stale   *kv.DB // the handle this party closed last (a second Close on it must be harmless for everybody else)
	holding bool
	evs     []lockEv
	viol    *Violation
	cnt     map[string]int64
}

func (r *Runner) lockDir() string { return r.dbDir() }

func runLock(r *Runner) {
	if err := r.begin(); err != nil {
		r.Infra = err.Error()
		return
	}
	defer r.end()
	old := debug.SetGCPercent(-1) // a leaked lock must stay leaked: no finalizer may close the descriptor mid-run
	defer func() {
		debug.SetGCPercent(old)
	}()
	peer, err := getPeer()
	if err != nil {
		r.Infra = "cannot start the peer process: " + err.Error()
		return
	}
	defer peer.do(PeerCmd{Cmd: "reset"})
	dir := r.lockDir()
	// ---- setup: optionally a directory with two data files, so that damaging the older one makes Open fail
	// after it has taken the lock
	var victim string
	var original []byte
	if len(r.C.Setup) > 0 {
		sa := vrt.NewSched(vrt.Policy{Mode: "seq"})
		sa.Go("setup", func() {
			r.judging = false
			if !r.openDB() {
				return
			}
			for i := range r.C.Setup {
				r.dispatch(-1, &r.C.Setup[i])
				if r.violated() {
					return
				}
			}
			r.closeDB()
		})
		sa.Run()
		r.afterSched(sa)
		if r.violated() {
			if r.V != nil {
				r.Aborted = "setup: " + r.V.Detail
				r.V = nil
			}
			return
		}
		files := r.dataFiles("db")
		if len(files) >= 2 {
			victim = filepath.Join(r.Root, files[0])
			original, _ = os.ReadFile(victim)
		}
	}
	// ---- concurrent phase
	n := len(r.C.Clients)
	parties := make([]*lockParty, n)
	sb := vrt.NewSched(r.C.Sched)
	for ci := 0; ci < n; ci++ {
		p := &lockParty{id: ci + 1, cnt: map[string]int64{}}
		parties[ci] = p
		ops := r.C.Clients[ci]
		isPeer := ci == n-1 && r.C.Knobs["peer"] == 1
		sb.Go(fmt.Sprintf("party%d", p.id), func() { r.lockPartyMain(p, ops, isPeer, peer, dir, victim, original) })
	}
	sb.Run()
	r.Traces = append(r.Traces, sb.TraceHash)
	r.add("sched_switches", int64(sb.Switches))
	if r.C.Sched.Choices == nil {
		r.C.Sched.Choices = append([]int{}, sb.Recorded...)
	}
	r.judging = true
	for _, p := range parties {
		for k, v := range p.cnt {
			r.Cnt[k] += v
		}
		if p.viol != nil && r.V == nil {
			r.V = p.viol
		}
	}
	if sb.Deadlock != "" {
		r.fail("deadlock", "", "deadlock among openers: %s", sb.Deadlock)
	}
	if sb.Fatal != "" {
		r.fail("fatal", "", "%s", sb.Fatal)
	}
	for _, t := range sb.Tasks() {
		if t.Panic != "" {
			r.fail("panic", "task", "task %s: %s", t.Name, clip(t.Panic, 300))
		}
	}
	if r.violated() {
		r.lockCleanup(parties, peer)
		return
	}
	// ---- history check
	var all []lockEv
	for _, p := range parties {
		all = append(all, p.evs...)
	}
	var pops []porcupine.Operation
	for i, e := range all {
		pops = append(pops, porcupine.Operation{ClientId: i, Input: lockIn{e.kind, e.party}, Call: int64(e.call), Output: 0, Return: int64(e.ret)})
	}
	res := porcupine.CheckOperationsTimeout(lockModel, pops, 20*time.Second)
	if res == porcupine.Illegal {
		sort.Slice(all, func(a, b int) bool { return all[a].call < all[b].call })
		var lines []string
		for _, e := range all {
			lines = append(lines, fmt.Sprintf("[%d,%d] party %d %s %s", e.call, e.ret, e.party, e.kind, e.detail))
		}
		r.fail("lock-history", "", "the outcomes of Open/Close admit no explanation by a single-holder lock that Close and a failed Open release: %s", clip(strings.Join(lines, "; "), 1500))
	} else if res == porcupine.Unknown {
		r.inc("lock_history_inconclusive")
	} else {
		r.inc("lock_history_checks")
	}
	// ---- afterwards the directory must be openable again (everybody has closed)
	r.lockCleanup(parties, peer)
	if r.violated() {
		return
	}
	if victim != "" {
		_ = os.WriteFile(victim, original, 0o644)
	}
	sc := vrt.NewSched(vrt.Policy{Mode: "seq"})
	sc.Go("final", func() {
		var db *kv.DB
		var err error
		p, fr := protect(func() { db, err = kv.Open(r.options(r.Cfg, dir)) })
		if p != "" {
			r.fail("panic", "Open@"+fr, "final Open: %s", clip(p, 300))
			return
		}
		if errors.Is(err, kv.ErrDatabaseIsUsing) {
			r.fail("lock-leaked", "", "after every party closed (or failed to open) the directory still reports ErrDatabaseIsUsing")
			return
		}
		if err != nil {
			r.judging = false
			r.fail("final-open-error", errName(err), "final Open: %v", err)
			return
		}
		protect(func() { _ = db.Close() })
		r.inc("final_opens")
	})
	sc.Run()
	r.afterSched(sc)
}

func (r *Runner) lockCleanup(parties []*lockParty, peer *peerProc) {
	for _, p := range parties {
		if p.db != nil {
			db := p.db
			p.db = nil
			protect(func() { _ = db.Close() })
		}
	}
	_, _ = peer.do(PeerCmd{Cmd: "reset"})
}

func (p *lockParty) fail(prop string, oracle, sig, format string, a ...interface{}) {
	if p.viol != nil {
		return
	}
	if sig == "" {
		sig = oracle
	} else {
		sig = oracle + ":" + sig
	}
	p.viol = &Violation{Prop: prop, Oracle: oracle, Sig: scrub(sig), Detail: scrub(fmt.Sprintf("party %d: %s", p.id, fmt.Sprintf(format, a...)))}
}

// dirHash hashes names, sizes and bytes of every file of dir except the lock file.
func dirHash(dir string) uint64 {
	h := uint64(1469598103934665603)
	ents, err := os.ReadDir(dir)
	if err != nil {
		return 0
	}
	for _, e := range ents {
		if strings.HasSuffix(e.Name(), ".lock") || e.IsDir() {
			continue
		}
		b, _ := os.ReadFile(filepath.Join(dir, e.Name()))
		h = vrt.Mix(h, vrt.HashString(e.Name()), uint64(len(b)), vrt.HashString(string(b)))
	}
	return h
}

func (r *Runner) lockPartyMain(p *lockParty, ops []Op, isPeer bool, peer *peerProc, dir, victim string, original []byte) {
	prop := r.C.Prop
	for i := range ops {
		op := &ops[i]
		if p.viol != nil {
			return
		}
		switch op.K {
		case "open":
			if p.holding {
				continue
			}
			var outcome, detail string
			jstart := len(r.FS.Journal)
			before := uint64(0)
			call := vrt.Stamp()
			if isPeer {
				vrt.Point(vrt.PUser, 1)
				// from here to the reply nothing else runs: the other process acts only on command
				before = dirHash(dir)
				rep, err := peer.do(PeerCmd{Cmd: "open", Dir: dir, Cfg: r.Cfg})
				if err != nil {
					p.fail(prop, "peer-died", "", "the peer process died during Open: %v", err)
					return
				}
				switch {
				case rep == "ok":
					outcome = "ok"
				case rep == "inuse":
					outcome = "inuse"
				case strings.HasPrefix(rep, "panic"):
					p.fail(prop, "panic", "peer-open", "Open in the other process: %s", rep)
					return
				default:
					outcome, detail = "err", rep
				}
			} else {
				var db *kv.DB
				var err error
				pm, fr := protect(func() { db, err = kv.Open(r.options(r.Cfg, dir)) })
				switch {
				case pm != "":
					p.fail(prop, "panic", "Open@"+fr, "Open: %s (in %s)", clip(pm, 300), fr)
					return
				case err == nil:
					outcome = "ok"
					p.db = db
				case errors.Is(err, kv.ErrDatabaseIsUsing):
					outcome = "inuse"
				default:
					outcome, detail = "err", errName(err)
				}
			}
			ret := vrt.Stamp()
			switch outcome {
			case "ok":
				p.holding = true
				p.evs = append(p.evs, lockEv{p.id, "acquire", call, ret, ""}, lockEv{p.id, "load-ok", call, ret, ""})
				p.cnt["opens_ok"]++
			case "inuse":
				p.evs = append(p.evs, lockEv{p.id, "inuse", call, ret, ""})
				p.cnt["opens_rejected"]++
				// a rejected Open does not touch the directory's contents
				if isPeer {
					if after := dirHash(dir); after != before {
						p.fail(prop, "rejected-open-touched-directory", "peer", "a rejected Open by the other process changed the directory's contents")
						return
					}
					p.cnt["rejected_open_dir_unchanged_peer"]++
				} else {
					me := vrt.CurTask()
					for j := jstart; j < len(r.FS.Journal); j++ {
						e := &r.FS.Journal[j]
						// creating the (still missing) directory or the lock file itself while racing for the lock is not
						// touching the contents of somebody's open database
						if e.Kind == vos.KMkdir || strings.HasSuffix(e.Path, ".lock") {
							continue
						}
						// (stores through a mapping are journalled by whichever task makes the next file call: an mwrite
						// entry says nothing about who wrote; mapping or truncating a file would show up as such)
						if e.Task == me && e.Kind.Mutating() && e.Kind != vos.KImport && e.Kind != vos.KMWrite {
							p.fail(prop, "rejected-open-touched-directory", "", "a rejected Open performed %s", e.String())
							return
						}
					}
					p.cnt["rejected_open_dir_unchanged"]++
				}
			default:
				p.evs = append(p.evs, lockEv{p.id, "acquire", call, ret, ""}, lockEv{p.id, "load-fail", call, ret, detail}, lockEv{p.id, "release-failed", call, ret, ""})
				p.cnt["opens_failed_other"]++
			}
		case "close":
			if !p.holding {
				continue
			}
			call := vrt.Stamp()
			if isPeer {
				vrt.Point(vrt.PUser, 2)
				rep, err := peer.do(PeerCmd{Cmd: "close"})
				if err != nil || rep != "ok" {
					p.fail(prop, "close-error", "peer", "Close in the other process: %s %v", rep, err)
					return
				}
			} else {
				db := p.db
				p.db = nil
				p.stale = db
				var err error
				pm, fr := protect(func() { err = db.Close() })
				if pm != "" || err != nil {
					p.fail(prop, "close-error", "", "Close: %s %v (%s)", clip(pm, 200), err, fr)
					return
				}
			}
			ret := vrt.Stamp()
			p.holding = false
			p.evs = append(p.evs, lockEv{p.id, "close", call, ret, ""})
			p.cnt["closes"]++
		case "put":
			if !p.holding {
				continue
			}
			key := fmt.Sprintf("token-%d", p.id)
			val := fmt.Sprintf("held-by-%d-step-%d", p.id, i)
			if isPeer {
				vrt.Point(vrt.PUser, 3)
				rep, err := peer.do(PeerCmd{Cmd: "put", Key: key, Val: val})
				if err != nil || rep != "ok" {
					p.fail(prop, "holder-io", "peer", "the holder (other process) cannot write and read back its token: %s %v", rep, err)
					return
				}
			} else {
				var err error
				var got []byte
				pm, _ := protect(func() {
					err = p.db.Put([]byte(key), []byte(val))
					if err == nil {
						got, err = p.db.Get([]byte(key))
					}
				})
				if pm != "" || err != nil || string(got) != val {
					p.fail(prop, "holder-io", "", "the holder cannot write and read back its token: %s %v %q", clip(pm, 200), err, got)
					return
				}
			}
			p.cnt["holder_token_writes"]++
		case "work":
			// ordinary use of the open handle - a merge, a sync, a backup, a batch, a scan: none of it may change who
			// holds the directory (no event for the lock model). What the calls return is other properties' business.
			if isPeer || !p.holding {
				continue
			}
			db := p.db
			pm, fr := protect(func() {
				switch op.N {
				case 0:
					_ = db.Merge()
				case 1:
					_ = db.Sync()
				case 2:
					_ = db.Backup(filepath.Join(r.Root, fmt.Sprintf("bk-%d-%d", p.id, i)))
				case 3:
					b := db.NewBatch(kv.BatchOptions{Sync: i%2 == 0})
					_ = b.Put([]byte(fmt.Sprintf("batch-%d", p.id)), []byte(fmt.Sprintf("step-%d", i)))
					_ = b.Commit()
				default:
					_ = db.Fold(func(k, v []byte) bool { return true })
					_ = db.Stat()
				}
			})
			if pm != "" {
				p.fail(prop, "panic", "work@"+fr, "use of the open handle (kind %d): %s (in %s)", op.N, clip(pm, 300), fr)
				return
			}
			p.cnt[fmt.Sprintf("holder_work_%d", op.N)]++
		case "reclose":
			// Close on a handle that was already closed (the repository's own tests do this in their cleanup): it no
			// longer holds the lock, so it must not change who does - no event for the lock model
			if isPeer || p.stale == nil {
				continue
			}
			db := p.stale
			pm, fr := protect(func() { _ = db.Close() })
			if pm != "" {
				p.fail(prop, "panic", "Close-twice@"+fr, "second Close on a closed handle: %s (in %s)", clip(pm, 300), fr)
				return
			}
			p.cnt["stale_closes"]++
		case "damage":
			if victim == "" {
				continue
			}
			b := append([]byte(nil), original...)
			if len(b) > 12 {
				b[len(b)/2] ^= 0xff
				b[9] ^= 0x55
			}
			call := vrt.Stamp()
			_ = os.WriteFile(victim, b, 0o644)
			ret := vrt.Stamp()
			p.evs = append(p.evs, lockEv{p.id, "damage", call, ret, ""})
			p.cnt["fault_damage_older_file"]++
		case "repair":
			if victim == "" {
				continue
			}
			call := vrt.Stamp()
			_ = os.WriteFile(victim, original, 0o644)
			ret := vrt.Stamp()
			p.evs = append(p.evs, lockEv{p.id, "repair", call, ret, ""})
		case "yield":
			vrt.Point(vrt.PUser, 0)
		}
	}
	// leave holding parties holding until the history has been judged; cleanup closes them
}

func genLock(c *Case, rng *vrt.Rand, tier string) func(r *Runner, i int) *Op {
	c.Arm = "lock"
	c.Slash = rng.Chance(0.1)
	c.Cfg = concConfig(rng)
	c.Cfg.IO = 0
	c.Cfg.FileSize = 200
	c.Sched = genPolicy(rng)
	c.Knobs = map[string]int{}
	var tag uint32
	withData := rng.Chance(0.6)
	if withData {
		for i := 0; i < rng.Range(3, 6); i++ {
			c.Setup = append(c.Setup, Op{K: "put", Key: Bytes(fmt.Sprintf("s%d", i)), Val: &Val{Len: rng.Range(60, 150), Tag: func() uint32 { tag++; return tag }()}})
		}
	}
	n := rng.Range(2, 4)
	c.Clients = make([][]Op, n)
	janitor := withData && rng.Chance(0.7)
	// holders also use their handle (seeded change S52: a Merge that releases the directory lock). No merges while a
	// janitor damages a data file by name: an adopted merge would put the holders' tokens into that very file.
	work := rng.Chance(0.5)
	for ci := range c.Clients {
		m := rng.Range(2, 8)
		for j := 0; j < m; j++ {
			switch x := rng.Intn(10); {
			case x < 5:
				c.Clients[ci] = append(c.Clients[ci], Op{K: "open"})
				if work && rng.Chance(0.5) {
					k := rng.Pick([]int{4, 1, 1, 1, 1})
					if janitor && k == 0 {
						k = 1
					}
					c.Clients[ci] = append(c.Clients[ci], Op{K: "work", N: k})
					j++
				}
			case x < 8:
				c.Clients[ci] = append(c.Clients[ci], Op{K: "close"})
			case x < 9:
				if rng.Chance(0.5) {
					c.Clients[ci] = append(c.Clients[ci], Op{K: "put"})
				} else {
					c.Clients[ci] = append(c.Clients[ci], Op{K: "reclose"})
				}
			default:
				c.Clients[ci] = append(c.Clients[ci], Op{K: "yield"})
			}
		}
	}
	if !janitor && rng.Chance(0.04) {
		// the mapped back-end (a refused Open must not pre-extend, map or truncate anything either). Not next to a
		// janitor: rewriting a file that a holder has mapped would kill the process with SIGBUS.
		c.Cfg.IO = 1
	}
	if janitor {
		// a janitor damages and repairs the older data file: Opens in between fail after taking the lock
		var j []Op
		for k := 0; k < rng.Range(1, 3); k++ {
			j = append(j, Op{K: "damage"})
			for y := 0; y < rng.Range(2, 8); y++ {
				j = append(j, Op{K: "yield"})
			}
			j = append(j, Op{K: "repair"}, Op{K: "yield"})
		}
		if rng.Chance(0.5) { // start damaged: the very first Opens fail after taking the lock
			j = append([]Op{{K: "damage"}}, j[1:]...)
			for ci := range c.Clients {
				c.Clients[ci] = append([]Op{{K: "yield"}}, c.Clients[ci]...)
			}
		}
		c.Clients = append(c.Clients, j)
	}
	if rng.Chance(0.6) {
		// the last party is the other process
		var pp []Op
		for j := 0; j < rng.Range(2, 6); j++ {
			switch x := rng.Intn(10); {
			case x < 5:
				pp = append(pp, Op{K: "open"})
			case x < 8:
				pp = append(pp, Op{K: "close"})
			default:
				pp = append(pp, Op{K: "put"})
			}
		}
		c.Clients = append(c.Clients, pp)
		c.Knobs["peer"] = 1
	}
	return nil
}
