package h

import (
	"bytes"
	"fmt"
	"io"
	"os"
	"path/filepath"
	"reflect"

	"github.com/XiXi-2024/xixi-kv/datafile"
	"github.com/XiXi-2024/xixi-kv/vsim/vos"
	"github.com/XiXi-2024/xixi-kv/vsim/vrt"
)

// GenIdx is the index of the run being generated (lets the thorough tier of C11 sweep start offsets completely).
var GenIdx int

func init() {
	arms["df"] = runDF
	generators["C11"] = genDF
}

type dfRec struct {
	key, val []byte
	batch    uint64
	typ      byte
}

type dfWritten struct {
	rec dfRec
	pos datafile.DataPos
}

// dfSide is one back-end's file in the lock-step run.
type dfSide struct {
	io      byte
	dir     string
	df      *datafile.DataFile
	written []dfWritten
	name    string
}

func batchOf(sel int, tag uint32) uint64 {
	switch sel {
	case 1:
		return 5
	case 2:
		return 1<<56 + uint64(tag)
	case 3:
		return ^uint64(0)
	}
	return 0
}

func (r *Runner) dfRecOf(op *Op) dfRec {
	rec := dfRec{key: []byte(op.Key), batch: batchOf(op.N, 0)}
	if op.Val != nil {
		rec.val = op.Val.Bytes()
		rec.batch = batchOf(op.N, op.Val.Tag)
	}
	if op.Flag {
		rec.typ = datafile.LogRecordDeleted
	}
	return rec
}

func runDF(r *Runner) {
	if err := r.begin(); err != nil {
		r.Infra = err.Error()
		return
	}
	defer r.end()
	s := vrt.NewSched(vrt.Policy{Mode: "seq"})
	s.Go("client", func() { r.dfMain() })
	s.Run()
	r.afterSched(s)
}

func (r *Runner) dfSize(side *dfSide) int64 {
	r.FS.Mark(-5)
	f := r.FS.Live.File(side.name)
	if f == nil {
		return 0
	}
	return int64(len(logicalContent(f)))
}

func (r *Runner) dfMain() {
	r.judging = true
	sides := []*dfSide{{io: 0, dir: filepath.Join(r.Root, "std")}, {io: 1, dir: filepath.Join(r.Root, "mmap")}}
	header := make([]byte, datafile.MaxLogRecordHeaderSize)
	fileNo := uint32(0)
	openAll := func() bool {
		for _, sd := range sides {
			_ = vos.MkdirAll(sd.dir, 0o755)
			var err error
			if !r.call("OpenFile", func() { sd.df, err = datafile.OpenFile(sd.dir, fileNo, datafile.DataFileSuffix, sd.io) }) {
				return false
			}
			if err != nil {
				r.fail("df-open-error", "", "OpenFile: %v", err)
				return false
			}
			rel, _ := filepath.Rel(r.Root, datafile.GetFileName(sd.dir, fileNo, datafile.DataFileSuffix))
			sd.name = rel
		}
		return true
	}
	closeAll := func() bool {
		for _, sd := range sides {
			if sd.df == nil {
				continue
			}
			var err error
			df := sd.df
			if !r.call("DataFile.Close", func() { err = df.Close() }) {
				return false
			}
			sd.df = nil
			if err != nil {
				r.fail("df-close-error", "", "Close: %v", err)
				return false
			}
		}
		return true
	}
	if !openAll() {
		return
	}
	ops := r.C.Clients[0]
	for i := 0; ; i++ {
		var op *Op
		if r.gen != nil {
			r.extra["dfsides"] = sides
			op = r.gen(r, i)
			if op == nil {
				break
			}
			inflightStep(op)
			r.C.Clients[0] = append(r.C.Clients[0], *op)
			op = &r.C.Clients[0][len(r.C.Clients[0])-1]
		} else {
			if i >= len(ops) {
				break
			}
			op = &ops[i]
		}
		r.step = i
		r.FS.CurOp = i
		switch op.K {
		case "rec", "filler":
			rec := r.dfRecOf(op)
			for _, sd := range sides {
				before := r.dfSize(sd)
				var pos *datafile.DataPos
				var err error
				if !r.call("WriteLogRecord", func() {
					lr := &datafile.LogRecord{Type: rec.typ, Key: rec.key, Value: rec.val, BatchID: rec.batch}
					pos, err = sd.df.WriteLogRecord(lr, header)
				}) {
					return
				}
				if err != nil {
					r.fail("df-write-error", "", "WriteLogRecord: %v", err)
					return
				}
				sd.written = append(sd.written, dfWritten{rec, *pos})
				r.dfCheckGrowth(sd, before, []*datafile.DataPos{pos})
				if r.violated() {
					return
				}
			}
			if op.K == "rec" {
				r.inc("df_records")
			}
		case "flush":
			var recs []dfRec
			for j := range op.Sub {
				recs = append(recs, r.dfRecOf(&op.Sub[j]))
			}
			for _, sd := range sides {
				before := r.dfSize(sd)
				var poss []*datafile.DataPos
				var err error
				if !r.call("FlushStaged", func() {
					for _, rec := range recs {
						sd.df.WriteStagedLogRecord(&datafile.LogRecord{Type: rec.typ, Key: rec.key, Value: rec.val, BatchID: rec.batch}, header)
					}
					poss, err = sd.df.FlushStaged()
				}) {
					return
				}
				if err != nil {
					r.fail("df-write-error", "", "FlushStaged: %v", err)
					return
				}
				if len(poss) != len(recs) {
					r.fail("df-flush-positions", "", "FlushStaged returned %d positions for %d records", len(poss), len(recs))
					return
				}
				for j, rec := range recs {
					sd.written = append(sd.written, dfWritten{rec, *poss[j]})
				}
				r.dfCheckGrowth(sd, before, poss)
				if r.violated() {
					return
				}
			}
			r.inc("df_staged_flushes")
			r.add("df_records", int64(len(recs)))
		case "verify":
			r.dfVerify(sides, false)
		case "reopen":
			r.dfVerify(sides, false)
			if r.violated() || !closeAll() {
				return
			}
			r.dfAfterClose(sides)
			if r.violated() || !openAll() {
				return
			}
			r.dfVerify(sides, true)
			r.inc("df_reopens")
		case "newfile":
			r.dfVerify(sides, false)
			if r.violated() || !closeAll() {
				return
			}
			r.dfAfterClose(sides)
			if r.violated() {
				return
			}
			fileNo++
			for _, sd := range sides {
				sd.written = nil
			}
			if !openAll() {
				return
			}
			r.inc("df_files")
		}
		if r.violated() {
			return
		}
	}
	r.dfVerify(sides, false)
	if r.violated() || !closeAll() {
		return
	}
	r.dfAfterClose(sides)
}

// dfCheckGrowth: the size reported for a record equals the bytes it occupies; the file grew by the reported sizes
// plus at most one block-tail padding of at most 7 zero bytes per record; the logical size matches.
func (r *Runner) dfCheckGrowth(sd *dfSide, before int64, poss []*datafile.DataPos) {
	after := r.dfSize(sd)
	var sum int64
	for _, p := range poss {
		sum += int64(p.Size)
	}
	grow := after - before
	if grow < sum || grow > sum+7*int64(len(poss)) {
		r.fail("df-growth", ioName(sd.io), "%s: the file grew by %d bytes for records reported as %d bytes in total (%d records; at most 7 bytes of padding each are allowed)", ioName(sd.io), grow, sum, len(poss))
		return
	}
	for _, p := range poss {
		start := int64(p.BlockID)*blockSz + int64(p.Offset)
		if start < before || start+int64(p.Size) > after {
			r.fail("df-position", ioName(sd.io), "%s: reported position block %d offset %d size %d lies outside the bytes just written [%d,%d)", ioName(sd.io), p.BlockID, p.Offset, p.Size, before, after)
			return
		}
		if int64(p.Offset)+7 > blockSz {
			r.fail("df-position", ioName(sd.io)+":tail", "%s: record starts %d bytes before a block boundary (no room for a chunk header)", ioName(sd.io), blockSz-int64(p.Offset))
			return
		}
		if p.Offset+7 >= blockSz-0 && p.Offset != 0 {
			r.inc("df_start_right_before_boundary")
		}
		end := (start + int64(p.Size)) % blockSz
		if end != 0 && blockSz-end <= 8 {
			r.inc("df_end_within_8_of_boundary")
		}
		if end == 0 {
			r.inc("df_end_on_boundary")
		}
		if int64(p.Size) > blockSz {
			r.inc("df_multi_block_records")
		}
	}
	var sz int64
	if !r.call("DataFile.Size", func() { sz = sd.df.Size() }) {
		return
	}
	if sz != after {
		r.fail("df-logical-size", ioName(sd.io), "%s: DataFile.Size() = %d, the file holds %d bytes", ioName(sd.io), sz, after)
	}
}

func ioName(io byte) string {
	if io == 1 {
		return "mmap"
	}
	return "std"
}

// dfVerify: sequential and random reads return what was written, at the positions reported at write time; both
// back-ends reported identical positions.
func (r *Runner) dfVerify(sides []*dfSide, afterReopen bool) {
	a, b := sides[0], sides[1]
	if len(a.written) != len(b.written) {
		r.Infra = "lock-step broken"
		return
	}
	for i := range a.written {
		if a.written[i].pos != b.written[i].pos {
			r.fail("df-backends-differ", "position", "record %d: standard I/O reports position %+v, mmap %+v", i, a.written[i].pos, b.written[i].pos)
			return
		}
	}
	for _, sd := range sides {
		var bad string
		if !r.call("DataReader", func() {
			rd := sd.df.NewReader()
			for i, w := range sd.written {
				rec, pos, err := rd.NextLogRecord()
				if err != nil {
					bad = fmt.Sprintf("record %d of %d: NextLogRecord = %v", i, len(sd.written), err)
					return
				}
				if pos.BlockID != w.pos.BlockID || pos.Offset != w.pos.Offset || pos.Size != w.pos.Size || pos.Fid != w.pos.Fid {
					bad = fmt.Sprintf("record %d: the reader reports position %+v, the writer reported %+v", i, *pos, w.pos)
					return
				}
				if !bytes.Equal(rec.Key, w.rec.key) || !beq(rec.Value, w.rec.val) || rec.BatchID != w.rec.batch || rec.Type != w.rec.typ {
					bad = fmt.Sprintf("record %d read back differs: key %s/%s value %s/%s batch %d/%d type %d/%d", i, show(rec.Key), show(w.rec.key), show(rec.Value), show(w.rec.val), rec.BatchID, w.rec.batch, rec.Type, w.rec.typ)
					return
				}
			}
			_, _, err := rd.NextLogRecord()
			if err != io.EOF {
				bad = fmt.Sprintf("after the last record NextLogRecord = %v, want io.EOF", err)
				return
			}
			for i, w := range sd.written {
				pos := w.pos
				v, err := readRecordValue(sd.df, &pos, w.rec.key)
				if err != nil || !beq(v, w.rec.val) {
					bad = fmt.Sprintf("record %d: ReadRecordValue at %+v = %s, %v; want %s", i, pos, show(v), err, show(w.rec.val))
					return
				}
			}
		}) {
			return
		}
		if bad != "" {
			sig := ioName(sd.io)
			if afterReopen {
				sig += ":after-reopen"
			}
			r.fail("df-roundtrip", sig, "%s: %s", ioName(sd.io), bad)
			return
		}
	}
	r.inc("df_verifications")
}

// dfAfterClose: logical size == physical size, and both back-ends stored identical bytes.
func (r *Runner) dfAfterClose(sides []*dfSide) {
	r.FS.Mark(-6)
	var contents [][]byte
	for _, sd := range sides {
		f := r.FS.Live.File(sd.name)
		if f == nil {
			r.Infra = "file vanished: " + sd.name
			return
		}
		st, err := os.Stat(filepath.Join(r.Root, sd.name))
		if err != nil {
			r.Infra = err.Error()
			return
		}
		var want int64
		for _, w := range sd.written {
			end := int64(w.pos.BlockID)*blockSz + int64(w.pos.Offset) + int64(w.pos.Size)
			if end > want {
				want = end
			}
		}
		if st.Size() != want {
			r.fail("df-physical-size", ioName(sd.io), "%s: after Close the file is %d bytes, its records end at %d", ioName(sd.io), st.Size(), want)
			return
		}
		contents = append(contents, f.Content())
	}
	if !bytes.Equal(contents[0], contents[1]) {
		i := 0
		for i < len(contents[0]) && i < len(contents[1]) && contents[0][i] == contents[1][i] {
			i++
		}
		r.fail("df-backends-differ", "bytes", "standard I/O and mmap stored different bytes (first difference at %d, lengths %d and %d)", i, len(contents[0]), len(contents[1]))
		return
	}
	r.inc("df_identical_backend_files")
}

// ---- generator ----

var varintLens = []int{0, 1, 63, 64, 65, 127, 128, 8191, 8192, 8193}

func genDF(c *Case, rng *vrt.Rand, tier string) func(r *Runner, i int) *Op {
	c.Arm = "df"
	c.Cfg = DefaultConfig
	var tag uint32
	nt := func() uint32 { tag++; return tag }
	// the schedule of (start offset, end distance) pairs for this run
	type pair struct{ start, dist int }
	var pairs []pair
	if tier == "thorough" {
		start := GenIdx % blockSz
		for d := -9; d <= 9; d++ {
			pairs = append(pairs, pair{start, d})
		}
	} else {
		for k := 0; k < rng.Range(2, 5); k++ {
			st := rng.Intn(blockSz)
			if rng.Chance(0.4) {
				st = blockSz - rng.Range(1, 40) // near the block end
			}
			if rng.Chance(0.1) {
				st = 0
			}
			pairs = append(pairs, pair{st, rng.Range(-9, 9)})
		}
	}
	pi := 0
	phase := 0 // 0 filler, 1 target record, 2 extras, 3 next file
	extras := 0
	tries := 0
	fillerLen := 0
	return func(r *Runner, i int) *Op {
		sides, _ := r.extra["dfsides"].([]*dfSide)
		if sides == nil || pi >= len(pairs) {
			return nil
		}
		cur := r.dfSize(sides[0])
		p := pairs[pi]
		switch phase {
		case 0:
			if p.start == 0 || cur%blockSz == int64(p.start) {
				phase = 1
				return &Op{K: "verify"}
			}
			if cur > 0 {
				// the filler missed the start offset (varint width or chunk count changed): try again in a fresh file
				tries++
				if tries > 6 {
					phase = 1
					return &Op{K: "verify"}
				}
				fillerLen += p.start - int(cur%blockSz)
				if fillerLen < 0 {
					fillerLen += blockSz
				}
				return &Op{K: "newfile"}
			}
			if tries == 0 {
				fillerLen = p.start - 12
				if fillerLen < 0 {
					fillerLen = 0
				}
			}
			return &Op{K: "filler", Key: Bytes("f"), Val: &Val{Len: fillerLen, Tag: nt()}}
		case 1:
			phase = 2
			extras = 0
			if tier != "thorough" || rng.Chance(0.25) {
				// (the thorough tier walks 19 end distances per run; a quarter of them also get the extras - staged
				// flushes, reopens, further records - so that the sweep does not leave those paths out)
				extras = rng.Range(0, 4)
			}
			if int(cur%blockSz) == p.start {
				r.inc("df_start_offsets_hit")
			}
			// a record that ends p.dist bytes around the next block boundary (or a later one)
			klen := varintLens[rng.Intn(4)]
			if klen == 0 {
				klen = 1
			}
			room := blockSz - int(cur%blockSz) - p.dist - klen - 12
			if rng.Chance(0.3) {
				room += (blockSz - 7) * rng.Range(1, 3)
			}
			for room < 0 {
				room += blockSz - 7
			}
			key := bytes.Repeat([]byte("k"), klen)
			return &Op{K: "rec", Key: key, Val: &Val{Len: room, Tag: nt()}, N: rng.Intn(4), Flag: rng.Chance(0.1)}
		case 2:
			if extras > 0 {
				extras--
				mk := func() Op {
					kl := varintLens[rng.Intn(len(varintLens))]
					if kl == 0 {
						kl = 1
					}
					vl := 0
					switch rng.Intn(6) {
					case 0:
						vl = varintLens[rng.Intn(len(varintLens))]
					case 1:
						vl = blockSz - 7 - rng.Range(0, 30) // about one block payload
					case 2:
						vl = rng.Range(blockSz, 4*blockSz)
					case 3:
						room := blockSz - int(r.dfSize(sides[0])%blockSz) - rng.Range(-9, 9) - kl - 12
						for room < 0 {
							room += blockSz - 7
						}
						vl = room
					default:
						vl = rng.Range(0, 300)
					}
					return Op{K: "rec", Key: bytes.Repeat([]byte("x"), kl), Val: &Val{Len: vl, Tag: nt()}, N: rng.Intn(4)}
				}
				if rng.Chance(0.35) {
					op := &Op{K: "flush"}
					for j := 0; j < rng.Range(1, 5); j++ {
						op.Sub = append(op.Sub, mk())
					}
					return op
				}
				if rng.Chance(0.25) {
					return &Op{K: "reopen"}
				}
				op := mk()
				return &op
			}
			phase = 3
			return &Op{K: "reopen"}
		default:
			pi++
			phase = 0
			tries = 0
			if pi >= len(pairs) {
				return nil
			}
			return &Op{K: "newfile"}
		}
	}
}

// readRecordValue calls DataFile.ReadRecordValue whichever of its two signatures the tree under test has: (pos) -
// the pinned one - or (pos, key), which verifies that the record found carries the key it was asked for (engine fix
// for damage that replaces a record by another valid one). Going through reflection keeps the harness buildable
// against a tree in which that fix is reverted.
func readRecordValue(df *datafile.DataFile, pos *datafile.DataPos, key []byte) ([]byte, error) {
	m := reflect.ValueOf(df).MethodByName("ReadRecordValue")
	args := []reflect.Value{reflect.ValueOf(pos)}
	if m.Type().NumIn() == 2 {
		args = append(args, reflect.ValueOf(key))
	}
	out := m.Call(args)
	v, _ := out[0].Interface().([]byte)
	err, _ := out[1].Interface().(error)
	return v, err
}
