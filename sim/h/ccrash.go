package h

import (
	"errors"
	"fmt"
	"math"
	"os"
	"path/filepath"
	"sort"
	"strings"

	kv "github.com/XiXi-2024/xixi-kv"
	"github.com/XiXi-2024/xixi-kv/vsim/vclock"
	"github.com/XiXi-2024/xixi-kv/vsim/vos"
	"github.com/XiXi-2024/xixi-kv/vsim/vrt"
)

// The "ccrash" arm: crash images of a run in which several clients use the database at the same time. The base
// run is the concurrent arm's (seeded scheduler, journalled disk); every journal position of the concurrent phase
// is then a process-crash image, a seeded share also power-loss images, and the real Open runs on each. With
// concurrent callers the acknowledged history is a partial order, so the prefix oracle of the sequential crash
// arm becomes a search: the recovered mapping must be the result of applying, in some order that respects
// real time (a returned before b was called => a before b), a downward-closed set of the operations that had
// begun, which contains every operation that must have survived (acknowledged, and - under power loss - all its
// bytes covered by a sync of their file, or committed by a Sync batch); a batch is one atomic step of that order.

func init() { arms["ccrash"] = runConcCrash }

type cwrite struct {
	key string
	val string
	del bool
}

// cgroup is one mutation of the concurrent phase: a Put, a Delete or a committed batch (one atomic step).
type cgroup struct {
	client, step int
	kind         string
	writes       []cwrite // final effect per key, sorted by key
	call, ret    uint64
	task         int
	syncBatch    bool
	hasData      bool  // wrote at least one byte to a data file
	ownSync      bool  // its task flushed a data file inside the call (a Sync batch that staged nothing flushes nothing)
	data         []int // journal indices of its data-file writes
}

func (g *cgroup) String() string {
	var parts []string
	for _, w := range g.writes {
		if w.del {
			parts = append(parts, fmt.Sprintf("del %q", w.key))
		} else {
			parts = append(parts, fmt.Sprintf("%q=%s", w.key, clip(w.val, 12)))
		}
	}
	return fmt.Sprintf("c%d.%d %s[%s] @[%d,%d]", g.client, g.step, g.kind, strings.Join(parts, " "), g.call, g.ret)
}

type ccTask struct {
	ts     *taskState
	groups []cgroup
	syncs  [][2]uint64 // call and return stamps of Sync() calls
}

func runConcCrash(r *Runner) {
	if err := r.begin(); err != nil {
		r.Infra = err.Error()
		return
	}
	defer r.end()
	// ---- phase A: setup, one task
	sa := vrt.NewSched(vrt.Policy{Mode: "seq"})
	sa.Go("setup", func() {
		r.step = -1
		r.judging = false
		if !r.openDB() {
			return
		}
		for i := range r.C.Setup {
			op := &r.C.Setup[i]
			r.step = -1 - i
			r.dispatch(-1, op)
			if r.violated() {
				return
			}
			r.advanceClock(op)
		}
		// what the setup wrote is on the platter before the clients start: the initial mapping is not in question
		if err := r.DB.Sync(); err != nil {
			r.fail("setup-sync", "", "Sync after the setup: %v", err)
		}
	})
	sa.Run()
	r.afterSched(sa)
	if r.violated() {
		if r.V != nil {
			r.Aborted = "setup: " + r.V.Detail
			r.V = nil
		}
		return
	}
	initial := r.M.clone()
	for _, k := range r.keySpace() {
		r.Ever[k] = true
	}
	r.FS.Mark(-1)
	startB := len(r.FS.Journal)
	clockB := vclock.NowNs() // the clients run at this instant of simulated time (the clock moves between steps only)
	// ---- phase B: the clients, under the seeded scheduler
	n := len(r.C.Clients)
	tasks := make([]*ccTask, n)
	sb := vrt.NewSched(r.C.Sched)
	for ci := 0; ci < n; ci++ {
		ct := &ccTask{ts: &taskState{id: ci, cnt: map[string]int64{}}}
		tasks[ci] = ct
		ops := r.C.Clients[ci]
		sb.Go(fmt.Sprintf("client%d", ci), func() { r.ccClient(ct, ops) })
	}
	sb.Run()
	r.Traces = append(r.Traces, sb.TraceHash)
	r.add("sched_switches", int64(sb.Switches))
	r.add("lock_waits", int64(sb.Waits))
	if r.C.Sched.Choices == nil {
		r.C.Sched.Choices = append([]int{}, sb.Recorded...)
		if r.C.Sched.Choices == nil {
			r.C.Sched.Choices = []int{}
		}
	}
	if sb.CapHit {
		r.Infra = "step cap hit"
		return
	}
	// what goes wrong in the live phase is judged by C08/C09 and the sequential arms; here it ends the run unjudged
	if sb.Deadlock != "" {
		r.Aborted = "deadlock in the base run: " + sb.Deadlock
		return
	}
	if sb.Fatal != "" {
		r.Aborted = "fatal error in the base run: " + clip(sb.Fatal, 200)
		return
	}
	for _, t := range sb.Tasks() {
		if t.Panic != "" {
			r.Aborted = "panic in the base run: " + clip(t.Panic, 200)
			return
		}
	}
	var groups []*cgroup
	for _, ct := range tasks {
		for k, v := range ct.ts.cnt {
			r.Cnt[k] += v
		}
		if ct.ts.aborted != "" && r.Aborted == "" {
			r.Aborted = ct.ts.aborted
		}
		for i := range ct.groups {
			groups = append(groups, &ct.groups[i])
		}
	}
	if r.Aborted != "" {
		return
	}
	if len(groups) > 30 {
		r.Aborted = "too many mutations for the prefix search"
		return
	}
	sort.SliceStable(groups, func(a, b int) bool { return groups[a].call < groups[b].call })
	r.FS.Mark(-1)
	journal := r.FS.Journal[:len(r.FS.Journal):len(r.FS.Journal)]
	endB := len(journal)
	// attribute data-file writes to the mutation in whose interval the task issued them (stores through a memory
	// mapping are found by the next file-system call of any task, so for them the interval alone decides)
	for i := startB; i < endB; i++ {
		e := &journal[i]
		if (e.Kind == vos.KSync || e.Kind == vos.KMSync) && isDBData(e.Path) {
			for _, g := range groups {
				if e.Ev > g.call && e.Ev < g.ret && e.Task == g.task {
					g.ownSync = true
				}
			}
		}
		if (e.Kind != vos.KWrite && e.Kind != vos.KMWrite) || !isDBData(e.Path) || len(e.Data) == 0 {
			continue
		}
		for _, g := range groups {
			if e.Ev > g.call && e.Ev < g.ret && (e.Kind == vos.KMWrite || e.Task == g.task) {
				g.hasData = true
				g.data = append(g.data, i)
			}
		}
	}
	r.add("cc_groups", int64(len(groups)))
	if r.C.Prop == "C13" {
		var syncs [][2]uint64
		for _, ct := range tasks {
			syncs = append(syncs, ct.syncs...)
		}
		r.ccSyncPolicy(groups, syncs, journal, startB)
		return
	}
	ctx := &crashCtx{r: r, journal: journal, rng: vrt.NewRand(vrt.Mix(r.C.Seed, 0xcc4a)), followBatches: 1}
	ctx.imgRoot = filepath.Join(ScratchBase, fmt.Sprintf("vsim-img-%d", os.Getpid()))
	defer os.RemoveAll(ctx.imgRoot)
	cc := &ccCtx{ctx: ctx, groups: groups, initial: initial, keys: r.keySpace(), clockB: clockB}
	if r.C.Crash != nil {
		if !ctx.pinFits(r.C.Crash) {
			return
		}
		cc.check(r.C.Crash.Pos, r.C.Crash.Cut, r.C.Crash.Power, nil)
		return
	}
	// crash positions of the concurrent phase; identical images (positions behind non-mutating entries) share one
	// recovery but are judged separately: what has been acknowledged differs
	var positions []int
	for k := startB; k <= endB; k++ {
		positions = append(positions, k)
	}
	budget := r.C.Knobs["ccpos"]
	if budget <= 0 {
		budget = 120
	}
	if len(positions) > budget {
		// keep a seeded subset, in order
		keep := map[int]bool{}
		for _, i := range ctx.rng.Perm(len(positions))[:budget] {
			keep[i] = true
		}
		var sub []int
		for i, k := range positions {
			if keep[i] {
				sub = append(sub, k)
			}
		}
		positions = sub
		r.inc("cc_positions_sampled")
	}
	var lastRec *recovery
	lastK := -1
	for _, k := range positions {
		var reuse *recovery
		if lastRec != nil && lastK >= 0 {
			same := true
			for i := lastK; i < k; i++ {
				if journal[i].Kind.Mutating() {
					same = false
					break
				}
			}
			if same {
				reuse = lastRec
			}
		}
		rec := cc.check(k, nil, false, reuse)
		if r.violated() || r.Infra != "" {
			return
		}
		lastRec, lastK = rec, k
		if r.C.PowerPct > 0 && reuse == nil && ctx.rng.Intn(100) < r.C.PowerPct {
			tree := vos.Replay(nil, journal, k, nil)
			for c := 0; c < r.C.Cuts; c++ {
				cut := ctx.genCut(tree, c)
				if cut == nil {
					break
				}
				for idx := range cut {
					if idx < startB {
						delete(cut, idx) // (does not happen after the Sync that ends the setup)
					}
				}
				cc.check(k, cut, true, nil)
				if r.violated() || r.Infra != "" {
					return
				}
			}
		}
	}
	r.add("crash_images", int64(ctx.images))
}

// ccClient executes one client's program and records its mutations.
func (r *Runner) ccClient(ct *ccTask, ops []Op) {
	ts := ct.ts
	prop := r.C.Prop
	me := vrt.CurTask()
	for i := range ops {
		op := &ops[i]
		if ts.aborted != "" {
			return
		}
		switch op.K {
		case "put", "del":
			var err error
			val := []byte(nil)
			if op.K == "put" {
				val = op.Val.Bytes()
			}
			call := vrt.Stamp()
			p, fr := protect(func() {
				if op.K == "put" {
					err = r.DB.Put(append([]byte(nil), op.Key...), val)
				} else {
					err = r.DB.Delete(append([]byte(nil), op.Key...))
				}
			})
			r.FS.Mark(-1) // stores through a mapping are journalled before the call counts as returned
			ret := vrt.Stamp()
			if p != "" || err != nil {
				ts.fail(prop, false, i, "base-run", "", "%s: %s %s (%s)", op.K, clip(p, 200), errName(err), fr)
				return
			}
			ct.groups = append(ct.groups, cgroup{client: ts.id, step: i, kind: op.K, call: call, ret: ret, task: me,
				writes: []cwrite{{key: string(op.Key), val: string(val), del: op.K == "del"}}})
			ts.inc("cc_" + op.K + "s")
		case "get":
			p, _ := protect(func() { _, _ = r.DB.Get(append([]byte(nil), op.Key...)) })
			if p != "" {
				ts.fail(prop, false, i, "base-run", "", "Get: %s", clip(p, 200))
				return
			}
		case "sync":
			var err error
			call := vrt.Stamp()
			p, _ := protect(func() { err = r.DB.Sync() })
			r.FS.Mark(-1)
			ret := vrt.Stamp()
			if p != "" || err != nil {
				ts.fail(prop, false, i, "base-run", "", "Sync: %s %s", clip(p, 200), errName(err))
				return
			}
			ct.syncs = append(ct.syncs, [2]uint64{call, ret})
			ts.inc("cc_syncs")
		case "merge":
			var err error
			p, _ := protect(func() { err = r.DB.Merge() })
			if p != "" {
				ts.fail(prop, false, i, "base-run", "", "Merge: %s", clip(p, 200))
				return
			}
			if err != nil {
				if !errors.Is(err, kv.ErrMergeIsProgress) && !strings.Contains(err.Error(), "merge abandoned") {
					ts.fail(prop, false, i, "base-run", "", "Merge: %s", errName(err))
					return
				}
				ts.inc("cc_merge_errors")
			} else {
				ts.inc("cc_merges")
			}
		case "batch":
			var b *kv.Batch
			var err error
			final := map[string]cwrite{}
			call := vrt.Stamp()
			p, fr := protect(func() {
				b = r.DB.NewBatch(kv.BatchOptions{Sync: op.Flag})
				for si := range op.Sub {
					s := &op.Sub[si]
					switch s.K {
					case "bput":
						v := s.Val.Bytes()
						if err = b.Put(append([]byte(nil), s.Key...), v); err != nil {
							return
						}
						final[string(s.Key)] = cwrite{key: string(s.Key), val: string(v)}
					case "bdel":
						if err = b.Delete(append([]byte(nil), s.Key...)); err != nil {
							return
						}
						final[string(s.Key)] = cwrite{key: string(s.Key), del: true}
					case "bget":
						_, _ = b.Get(append([]byte(nil), s.Key...))
					case "yield":
						vrt.Point(vrt.PUser, 0)
					}
				}
				err = b.Commit()
			})
			r.FS.Mark(-1)
			ret := vrt.Stamp()
			if p != "" || err != nil {
				ts.fail(prop, false, i, "base-run", "", "batch: %s %s (%s)", clip(p, 200), errName(err), fr)
				return
			}
			g := cgroup{client: ts.id, step: i, kind: "batch", call: call, ret: ret, task: me, syncBatch: op.Flag}
			ks := make([]string, 0, len(final))
			for k := range final {
				ks = append(ks, k)
			}
			sort.Strings(ks)
			for _, k := range ks {
				g.writes = append(g.writes, final[k])
			}
			ct.groups = append(ct.groups, g)
			ts.inc("cc_batches")
		case "yield", "sleep":
			vrt.Point(vrt.PUser, 0)
		}
	}
}

type ccCtx struct {
	ctx     *crashCtx
	groups  []*cgroup
	initial State
	keys    []string
	clockB  int64
}

// check judges the crash image at journal position k (reuse: the recovery of an identical image).
func (cc *ccCtx) check(k int, cut map[int]int, power bool, reuse *recovery) *recovery {
	ctx := cc.ctx
	r := ctx.r
	journal := ctx.journal
	r.judging = true
	r.step = k
	kind := "process"
	if power {
		kind = "power"
	}
	clockBack, otherCfg := false, false
	pin := func() { r.C.Crash = &Crash{Pos: k, Cut: cut, Power: power, ClockBack: clockBack, OtherCfg: otherCfg} }
	rec := reuse
	if rec == nil {
		tree := vos.Replay(nil, journal, k, cut)
		if power {
			r.inc("fault_power_loss_images")
			for idx, keep := range cut {
				if keep > 0 && keep < len(journal[idx].Data) {
					r.inc("fault_torn_write_images")
					break
				}
			}
		} else {
			r.inc("fault_process_crash_images")
		}
		cfg := r.C.Cfg
		if r.C.Crash == nil && ctx.images%5 == 3 || r.C.Crash != nil && r.C.Crash.OtherCfg {
			// reopened under another reader configuration (see the crash arm)
			cfg.IO ^= 1
			cfg.Index = cfg.Index%3 + 1
			cfg.Shards = []int{1, 3, 16}[k%3]
			otherCfg = true
			r.inc("fault_recovery_under_other_config")
		}
		var follow func(db *kv.DB, rec *recovery) *kv.DB
		if power || ctx.images%4 == 0 || r.C.Crash != nil {
			follow = ctx.usability(cfg)
		}
		// the wall clock stepped back across the crash to the instant the clients ran at (see the crash arm): ids
		// the follow-up's batches draw from the clock must not collide with those of batches that died unsealed
		ctx.clockBack = 0
		if follow != nil && (r.C.Crash == nil && ctx.images%2 == 1 || r.C.Crash != nil && r.C.Crash.ClockBack) {
			ctx.clockBack = cc.clockB
			clockBack = true
		}
		rec = ctx.recoverImage(tree, cfg, false, follow)
		ctx.clockBack = 0
		os.RemoveAll(rec.root)
	} else {
		r.inc("cc_images_shared")
	}
	where := cc.describe(k, cut, power)
	if clockBack {
		where += "; the wall clock was stepped back to the instant of the concurrent phase while the process was down"
	}
	if otherCfg {
		where += "; reopened with the other I/O back-end, another index type and shard count"
	}
	if rec.oracle == "infra" {
		r.Infra = rec.failure
		return rec
	}
	if rec.failure != "" {
		pin()
		r.fail(rec.oracle, kind, "%s: %s", where, rec.failure)
		return rec
	}
	if rec.openErr != nil {
		pin()
		io := "std"
		if (r.C.Cfg.IO == 1) != otherCfg {
			io = "mmap"
		}
		r.fail("recovery-open-error", kind+":"+io+":"+errName(rec.openErr), "%s: Open of the crash image fails: %v", where, rec.openErr)
		return rec
	}
	// ---- who had begun, who had been acknowledged, who must have survived
	tcrash := uint64(math.MaxUint64)
	if k < len(journal) {
		tcrash = journal[k].Ev
	}
	var unsynced map[int]bool
	if power {
		unsynced = map[int]bool{}
		for _, f := range vos.Replay(nil, journal, k, nil).Inodes {
			for _, idx := range f.Unsynced {
				unsynced[idx] = true
			}
		}
	}
	var started []*cgroup
	must := map[*cgroup]bool{}
	acked := map[*cgroup]bool{}
	for _, g := range cc.groups {
		if g.call >= tcrash {
			continue
		}
		started = append(started, g)
		if g.ret >= tcrash {
			continue
		}
		acked[g] = true
		if !power {
			must[g] = true
			continue
		}
		if !g.hasData {
			continue // wrote nothing (the delete of an absent key): no file whose sync could force it
		}
		durable := true
		for _, idx := range g.data {
			if unsynced[idx] {
				durable = false
				break
			}
		}
		// a batch created with Sync is durable once Commit has returned, whatever else was synced when - if it
		// wrote anything: its own task then flushed a data file inside the call (stores through a mapping cannot
		// be told apart by task, a flush can)
		if durable || (g.syncBatch && g.ownSync) {
			must[g] = true
			if g.syncBatch && !durable {
				r.inc("sync_batch_durability_demanded")
			}
		}
	}
	target := map[string]string{}
	present := map[string]bool{}
	for kx, v := range rec.dump.Vals {
		target[kx] = string(v)
		present[kx] = true
	}
	ok, nodes := cc.search(started, must, target, present, true)
	if nodes > 2_000_000 {
		r.inc("cc_search_gave_up") // inconclusive, counted, never reported (expected to stay 0)
	}
	r.add("cc_search_nodes", int64(nodes))
	if ok {
		r.inc("images_ok")
		if len(started) > len(acked) {
			r.inc("cc_images_with_inflight_ops")
		}
		return rec
	}
	pin()
	// classify by relaxing the demands one at a time
	class := "no-consistent-prefix"
	if ok2, _ := cc.search(started, map[*cgroup]bool{}, target, present, true); ok2 {
		class = "acknowledged-lost"
	} else if ok3, _ := cc.search(started, map[*cgroup]bool{}, target, present, false); ok3 {
		class = "not-a-prefix"
	}
	var gl []string
	for _, g := range started {
		st := "in flight"
		if must[g] {
			st = "must survive"
		} else if acked[g] {
			st = "acknowledged, not yet synced"
		}
		gl = append(gl, g.String()+" ("+st+")")
	}
	var rl []string
	for _, kx := range rec.dump.Keys {
		rl = append(rl, fmt.Sprintf("%q=%s", kx, clip(string(rec.dump.Vals[kx]), 12)))
	}
	if os.Getenv("VSIM_DUMPJOURNAL") != "" {
		for i := 0; i < k && i < len(journal); i++ {
			fmt.Fprintf(os.Stderr, "J %3d ev=%d task=%d %s\n", i, journal[i].Ev, journal[i].Task, journal[i].String())
		}
	}
	r.fail("concurrent-recovery-"+class, kind, "%s: the recovered mapping {%s} is not what any real-time-respecting order of a downward-closed set of the begun operations produces that contains every operation that must have survived; operations: %s; initial mapping has %d keys",
		where, strings.Join(rl, " "), strings.Join(gl, "; "), len(cc.initial))
	return rec
}

// search looks for an order. closed=false drops the real-time and downward-closure demands (any subset, any order)
// and is only used to name the kind of failure.
func (cc *ccCtx) search(started []*cgroup, must map[*cgroup]bool, target map[string]string, present map[string]bool, closed bool) (bool, int) {
	n := len(started)
	if n > 30 {
		return true, 0
	}
	preds := make([]uint32, n)
	if closed {
		for i, g := range started {
			for j, h := range started {
				if i != j && h.ret < g.call {
					preds[i] |= 1 << uint(j)
				}
			}
		}
	}
	var mustMask uint32
	for i, g := range started {
		if must[g] {
			mustMask |= 1 << uint(i)
		}
	}
	// state: per key the index of the last writer (-1 = initial mapping)
	keyIdx := map[string]int{}
	for i, k := range cc.keys {
		keyIdx[k] = i
	}
	matches := func(last []int) bool {
		for ki, k := range cc.keys {
			var val string
			var has bool
			if last[ki] < 0 {
				v, ok := cc.initial[k]
				val, has = string(v), ok
			} else {
				for _, w := range started[last[ki]].writes {
					if w.key == k {
						val, has = w.val, !w.del
					}
				}
			}
			if has != present[k] || (has && val != target[k]) {
				return false
			}
		}
		// keys outside the key space must not appear
		for k := range present {
			if _, ok := keyIdx[k]; !ok {
				return false
			}
		}
		return true
	}
	seen := map[string]bool{}
	nodes := 0
	var dfs func(mask uint32, last []int) bool
	dfs = func(mask uint32, last []int) bool {
		nodes++
		if nodes > 2_000_000 {
			return true // give up in favour of the engine (never observed; counted by the caller's probes)
		}
		if mask&mustMask == mustMask && matches(last) {
			return true
		}
		key := fmt.Sprint(mask, last)
		if seen[key] {
			return false
		}
		seen[key] = true
		for i := 0; i < n; i++ {
			if mask&(1<<uint(i)) != 0 || preds[i]&^mask != 0 {
				continue
			}
			nl := append([]int(nil), last...)
			for _, w := range started[i].writes {
				if ki, ok := keyIdx[w.key]; ok {
					nl[ki] = i
				}
			}
			if dfs(mask|1<<uint(i), nl) {
				return true
			}
		}
		return false
	}
	last := make([]int, len(cc.keys))
	for i := range last {
		last[i] = -1
	}
	return dfs(0, last), nodes
}

func (cc *ccCtx) describe(k int, cut map[int]int, power bool) string {
	journal := cc.ctx.journal
	what := "process crash"
	if power {
		what = "power loss"
	}
	at := "before the first I/O"
	if k > 0 {
		e := &journal[k-1]
		at = fmt.Sprintf("after journal entry %d (%s, task %d) of the concurrent phase", k-1, e.String(), e.Task)
	}
	s := fmt.Sprintf("%s %s", what, at)
	if power {
		var parts []string
		idxs := make([]int, 0, len(cut))
		for i := range cut {
			idxs = append(idxs, i)
		}
		sort.Ints(idxs)
		for _, i := range idxs {
			parts = append(parts, fmt.Sprintf("entry %d (%s) keeps %d of %d bytes", i, journal[i].Path, cut[i], len(journal[i].Data)))
		}
		s += "; " + strings.Join(parts, ", ")
	}
	return s
}

// ccSyncPolicy judges the sync policy (C13) on the journal of a concurrent run: what must be flushed when a call
// returns is decided per call from the data-file writes its own task issued inside it (standard I/O only: stores
// through a mapping cannot be told apart by task).
func (r *Runner) ccSyncPolicy(groups []*cgroup, syncs [][2]uint64, journal []vos.Entry, startB int) {
	r.judging = true
	// the rotation rule over the whole journal
	r.scanJournal()
	if r.violated() {
		return
	}
	type ev struct {
		at   uint64
		g    *cgroup
		sync *[2]uint64
	}
	var evs []ev
	for _, g := range groups {
		evs = append(evs, ev{at: g.ret, g: g})
	}
	for i := range syncs {
		evs = append(evs, ev{at: syncs[i][1], sync: &syncs[i]})
	}
	sort.Slice(evs, func(a, b int) bool { return evs[a].at < evs[b].at })
	unsynced := map[int][]int{} // inode -> journal indices of unflushed data entries
	isUnsynced := func(idx int) bool {
		for _, i := range unsynced[journal[idx].Ino] {
			if i == idx {
				return true
			}
		}
		return false
	}
	next := 0
	advance := func(until uint64) {
		for ; next < len(journal) && journal[next].Ev < until; next++ {
			e := &journal[next]
			switch e.Kind {
			case vos.KWrite, vos.KMWrite:
				if isDBData(e.Path) {
					unsynced[e.Ino] = append(unsynced[e.Ino], next)
				}
			case vos.KSync, vos.KMSync:
				delete(unsynced, e.Ino)
			}
		}
	}
	var returned []*cgroup
	for _, x := range evs {
		advance(x.at)
		if x.sync != nil {
			// Sync() flushes everything written before it was called
			inos := make([]int, 0, len(unsynced))
			for ino := range unsynced {
				inos = append(inos, ino)
			}
			sort.Ints(inos)
			for _, ino := range inos {
				for _, idx := range unsynced[ino] {
					if journal[idx].Ev < x.sync[0] && idx >= startB {
						r.fail("unsynced-after-sync", "concurrent", "Sync() returned (event %d) while journal entry %d (%s), written before it was called (event %d), is unflushed", x.sync[1], idx, journal[idx].String(), x.sync[0])
						return
					}
				}
			}
			r.inc("all_synced_checks")
			continue
		}
		g := x.g
		returned = append(returned, g)
		plain := g.kind == "put" || g.kind == "del"
		if (plain && r.C.Cfg.Sync == 1) || g.syncBatch {
			for _, idx := range g.data {
				if isUnsynced(idx) {
					if plain {
						r.fail("always-unsynced", "concurrent", "SyncStrategy Always: %s returned while its own write (journal entry %d, %s) is unflushed", g.String(), idx, journal[idx].String())
					} else {
						r.fail("sync-batch-unsynced", "concurrent", "Commit of a Sync batch returned (%s) while its own write (journal entry %d, %s) is unflushed", g.String(), idx, journal[idx].String())
					}
					return
				}
			}
			if plain {
				r.inc("always_checks")
			} else {
				r.inc("sync_batch_checks")
			}
		}
		if r.C.Cfg.Sync == 2 && r.C.Cfg.BPS > 0 {
			total := 0
			for _, h := range returned {
				if h.kind != "put" && h.kind != "del" {
					continue
				}
				for _, idx := range h.data {
					if isUnsynced(idx) {
						total += len(journal[idx].Data) - blockTailPadding(&journal[idx])
					}
				}
			}
			if total >= int(r.C.Cfg.BPS) {
				r.fail("threshold-exceeded", "concurrent", "SyncStrategy Threshold(%d): when %s returned, %d bytes appended by acknowledged Put/Delete calls were unflushed", r.C.Cfg.BPS, g.String(), total)
				return
			}
			r.inc("threshold_checks")
		}
	}
	// Close() flushes everything
	sc := vrt.NewSched(vrt.Policy{Mode: "seq"})
	sc.Go("close", func() {
		if r.closeDB() {
			r.checkAllSynced("Close")
		}
	})
	sc.Run()
	r.afterSched(sc)
}
