// racetoy checks the arrangement C09 relies on: under the cooperative scheduler, whose hand-offs are invisible to
// the Go race detector, (1) two tasks updating an unprotected variable ARE reported, (2) the same updates under a
// vsync.Mutex or vsync.RWMutex are NOT, (3) fork/join edges of a phase are seen. Run by selftest/racecheck.sh with
// a -race build: mode "unprotected" must print a DATA RACE report, modes "mutex", "rwmutex", "phases" must not.
package main

import (
	"fmt"
	"os"

	"github.com/XiXi-2024/xixi-kv/vsim/vrt"
	"github.com/XiXi-2024/xixi-kv/vsim/vsync"
)

var counter int
var mu vsync.Mutex
var rw vsync.RWMutex

func main() {
	mode := os.Args[1]
	before := 0
	counter = 41 // written by the harness goroutine before the fork
	before = counter
	for seed := uint64(1); seed <= 20; seed++ {
		s := vrt.NewSched(vrt.Policy{Mode: "random", Seed: seed})
		for t := 0; t < 3; t++ {
			s.Go(fmt.Sprintf("t%d", t), func() {
				for i := 0; i < 4; i++ {
					switch mode {
					case "unprotected":
						vrt.Point(vrt.PUser, 0)
						counter++
					case "mutex":
						mu.Lock()
						counter++
						mu.Unlock()
					case "rwmutex":
						rw.RLock()
						_ = counter
						rw.RUnlock()
						rw.Lock()
						counter++
						rw.Unlock()
					case "phases":
						vrt.Point(vrt.PUser, 0) // tasks only read; the harness writes between phases
						_ = counter
					}
				}
			})
		}
		s.Run()
		counter++ // written by the harness goroutine after the join
	}
	fmt.Println("done", mode, before, counter)
}
