// Package vclock is the simulated clock. Time only moves when the simulator moves it.
package vclock

import (
	"time"

	"github.com/XiXi-2024/xixi-kv/vsim/vrt"
	"github.com/bwmarrin/snowflake"
)

var nowNs int64 = 1_700_000_000_000_000_000 // 2023-11-14; always after the snowflake epoch

// Reads counts calls to Now (a reach probe).
var Reads uint64

// Set positions the clock (start of a run).
//
//go:norace
func Set(ns int64) { nowNs = ns; Reads = 0 }

// Advance moves the clock forward by d > 0.
//
//go:norace
func Advance(d time.Duration) {
	if d > 0 {
		nowNs += int64(d)
	}
}

// Jump sets the clock to ns, forwards or backwards (a stepped wall clock), without touching the read counter.
//
//go:norace
func Jump(ns int64) { nowNs = ns }

// NowNs returns the simulated time in nanoseconds since the Unix epoch.
//
//go:norace
func NowNs() int64 { return nowNs }

// Now replaces time.Now in the rewritten engine.
//
//go:norace
func Now() time.Time {
	Reads++
	return time.Unix(0, nowNs)
}

// Sleep replaces time.Sleep: it advances the simulated clock and yields.
func Sleep(d time.Duration) {
	Advance(d)
	vrt.Point(vrt.PSleep, 0)
}

// Since and Until mirror the time package on the simulated clock.
func Since(t time.Time) time.Duration { return Now().Sub(t) }
func Until(t time.Time) time.Duration { return t.Sub(Now()) }

// Node mirrors snowflake.Node on the simulated clock: same id layout, same "a fresh node starts at step 0"
// behaviour (the engine creates a fresh node for every batch).
type Node struct {
	node int64
	time int64
	step int64
}

func NewNode(node int64) (*Node, error) {
	if _, err := snowflake.NewNode(node); err != nil { // same argument validation as the real one
		return nil, err
	}
	return &Node{node: node}, nil
}

//go:norace
func (n *Node) Generate() snowflake.ID {
	Reads++
	now := nowNs/1_000_000 - snowflake.Epoch
	stepMask := int64(-1 ^ (-1 << snowflake.StepBits))
	if now == n.time {
		n.step = (n.step + 1) & stepMask
		if n.step == 0 {
			now++ // the real node spins until the next millisecond
		}
	} else {
		n.step = 0
	}
	n.time = now
	return snowflake.ID(now<<(snowflake.NodeBits+snowflake.StepBits) | n.node<<snowflake.StepBits | n.step)
}
