// vcheck is the single entry point of every registered check:
//
//	vcheck <PROPERTY> [--tier quick|thorough] [--replay FILE] [--runs N] [--workers N]
//
// It snapshots the working tree of $VERIF_REPO (default /repo), installs the simulator seams in the copy,
// builds the simulator binary from it, runs the seeded simulations of the property on up to 16 worker
// processes, minimises and re-confirms any violation in a fresh process, writes /verif/evidence/<id>.json and
// exits 0 (held), 1 (VIOLATION line printed) or 2 (infrastructure trouble: never a verdict).
package main

import (
	"bufio"
	"bytes"
	"encoding/json"
	"fmt"
	"io"
	"os"
	"os/exec"
	"path/filepath"
	"regexp"
	"sort"
	"strconv"
	"strings"
	"sync"
	"time"
)

type violation struct {
	Prop   string `json:"prop"`
	Oracle string `json:"oracle"`
	Sig    string `json:"sig"`
	Detail string `json:"detail"`
	Step   int    `json:"step"`
}

type result struct {
	Idx        int              `json:"idx"`
	Seed       uint64           `json:"seed"`
	Outcome    string           `json:"outcome"`
	Violation  *violation       `json:"violation,omitempty"`
	Note       string           `json:"note,omitempty"`
	CaseHash   uint64           `json:"casehash"`
	Nontrivial bool             `json:"nontrivial"`
	Counters   map[string]int64 `json:"counters,omitempty"`
	Traces     []uint64         `json:"traces,omitempty"`
	States     []uint64         `json:"states,omitempty"`
	SimNs      int64            `json:"simns"`
	Events     uint64           `json:"events"`
	Case       json.RawMessage  `json:"case,omitempty"`
	WallUs     int64            `json:"wallus"`
	Known      []struct {
		ID     string `json:"id"`
		Sig    string `json:"sig"`
		Detail string `json:"detail"`
	} `json:"known,omitempty"`
}

type meta struct {
	Level       string   `json:"level"`
	Rule        string   `json:"rule"`
	Assumptions []string `json:"assumptions"`
	Required    []string `json:"required_probes"`
	Quick       int      `json:"quick_runs"`
	Thorough    int      `json:"thorough_runs"`
	Race        bool     `json:"race"`
	Real        []string `json:"real_components"`
	Stubbed     []string `json:"stubbed_components"`
	NotReached  []string `json:"not_reached"`
	Technique   string   `json:"technique"`
}

type finding struct {
	ID       string `json:"id"`
	Property string `json:"property"`
	Oracle   string `json:"oracle"`           // exact oracle name
	SigRe    string `json:"sig_re,omitempty"` // regexp on the violation signature
	DetailRe string `json:"detail_re,omitempty"`
	CaseRe   string `json:"case_re,omitempty"` // regexp on the compact JSON of the (minimised) case
	What     string `json:"what"`
}

type findingsFile struct {
	Findings []finding `json:"findings"`
	Fixed    []string  `json:"fixed"`
}

var (
	verifDir string
	repoDir  string
	scratch  string
	simbin   string
	prop     string
	tier     string
	baseSeed uint64
)

func infra(format string, a ...interface{}) {
	fmt.Printf("INFRASTRUCTURE-ERROR property=%s: %s\n", prop, fmt.Sprintf(format, a...))
	cleanup()
	os.Exit(2)
}

func cleanup() {
	if scratch != "" && os.Getenv("VERIF_KEEP") == "" {
		_ = os.RemoveAll(scratch)
	}
}

func main() {
	args := os.Args[1:]
	if len(args) < 1 {
		fmt.Println("usage: vcheck <PROPERTY> [--tier quick|thorough] [--replay FILE] [--runs N]")
		os.Exit(2)
	}
	prop = args[0]
	tier = os.Getenv("VERIF_TIER")
	replay := ""
	minFile := ""
	runsOverride := 0
	workers := 16
	for i := 1; i < len(args); i++ {
		switch args[i] {
		case "--tier":
			i++
			tier = args[i]
		case "--replay":
			i++
			replay = args[i]
		case "--minimise":
			i++
			minFile = args[i]
		case "--runs":
			i++
			runsOverride, _ = strconv.Atoi(args[i])
		case "--workers":
			i++
			workers, _ = strconv.Atoi(args[i])
		}
	}
	if tier == "" {
		tier = "quick"
	}
	if tier != "quick" && tier != "thorough" {
		fmt.Println("bad tier", tier)
		os.Exit(2)
	}
	baseSeed = 1
	if s := os.Getenv("VERIF_SEED"); s != "" {
		if v, err := strconv.ParseUint(s, 10, 64); err == nil {
			baseSeed = v
		} else if v, err := strconv.ParseInt(s, 10, 64); err == nil {
			baseSeed = uint64(v)
		}
	}
	if s := os.Getenv("VERIF_RUNS"); s != "" && runsOverride == 0 {
		runsOverride, _ = strconv.Atoi(s)
	}
	if s := os.Getenv("VERIF_WORKERS"); s != "" {
		workers, _ = strconv.Atoi(s)
	}
	exe, _ := os.Executable()
	verifDir = filepath.Dir(filepath.Dir(exe))
	if v := os.Getenv("VERIF_DIR"); v != "" {
		verifDir = v
	}
	repoDir = os.Getenv("VERIF_REPO")
	if repoDir == "" {
		repoDir = "/repo"
	}
	start := time.Now()

	m := build()

	if replay != "" {
		os.Exit(doReplay(replay, m))
	}
	if minFile != "" {
		// developer aid: minimise the case of a result file (as printed by `simbin gen`)
		b, err := os.ReadFile(minFile)
		if err != nil {
			infra("%v", err)
		}
		var r result
		if err := json.Unmarshal(b, &r); err != nil || r.Violation == nil {
			infra("not a violation result: %v", err)
		}
		cs, v, ok := minimise(&r)
		fmt.Println("reproduced:", ok)
		if ok {
			fmt.Printf("%s\n%s\n", v.Detail, cs)
		}
		cleanup()
		os.Exit(0)
	}

	runs := m.Quick
	if tier == "thorough" {
		runs = m.Thorough
	}
	if runsOverride > 0 {
		runs = runsOverride
	}
	agg := runAll(runs, workers, m)
	code := conclude(agg, m, start)
	cleanup()
	os.Exit(code)
}

// outDir is where evidence and replay files go: /verif, or $VERIF_OUT (used when a check is pointed at a
// scratch copy of the repository, e.g. by the mutant self-test, so that the committed evidence is not overwritten).
func outDir() string {
	if v := os.Getenv("VERIF_OUT"); v != "" {
		return v
	}
	return verifDir
}

// knownEnv serialises the open findings of this property that are identified by oracle and signature alone, so
// that the harness can step over them inside a run (findings with detail/case predicates are matched here only).
func knownEnv() string {
	kf := loadFindings()
	var out []map[string]string
	for _, f := range kf.Findings {
		if f.Property == prop && f.SigRe != "" && f.DetailRe == "" && f.CaseRe == "" {
			out = append(out, map[string]string{"id": f.ID, "property": f.Property, "oracle": f.Oracle, "sig_re": f.SigRe})
		}
	}
	if len(out) == 0 {
		return "VSIM_KNOWN="
	}
	b, _ := json.Marshal(out)
	return "VSIM_KNOWN=" + string(b)
}

func goEnv() []string {
	env := os.Environ()
	env = append(env, "GOFLAGS=-mod=mod", "GOPROXY=off", "GOSUMDB=off", "GOTOOLCHAIN=local", "GONOSUMDB=*")
	return env
}

// build snapshots and rewrites the repository, builds simbin, and returns the property's metadata.
func build() *meta {
	base := "/dev/shm"
	if st, err := os.Stat(base); err != nil || !st.IsDir() {
		base = os.TempDir()
	}
	var err error
	scratch, err = os.MkdirTemp(base, "vcheck-"+prop+"-")
	if err != nil {
		infra("mktemp: %v", err)
	}
	vrw := filepath.Join(verifDir, "bin", "vrewrite")
	if _, err := os.Stat(vrw); err != nil {
		infra("%s missing: run MANIFEST.setup_cmd first", vrw)
	}
	cmd := exec.Command(filepath.Join(verifDir, "scripts", "mkscratch.sh"), repoDir, scratch)
	cmd.Env = goEnv()
	out, err := cmd.CombinedOutput()
	if err != nil {
		infra("preparing the rewritten copy failed: %v\n%s", err, out)
	}
	simbin = filepath.Join(scratch, "simbin")
	bargs := []string{"build", "-o", simbin}
	if os.Getenv("VERIF_RACE") == "1" || propNeedsRace(prop) {
		bargs = append(bargs, "-race")
	}
	bargs = append(bargs, "./vsim/cmd/simbin")
	cmd = exec.Command("go", bargs...)
	cmd.Dir = filepath.Join(scratch, "src")
	cmd.Env = goEnv()
	out, err = cmd.CombinedOutput()
	if err != nil {
		infra("building the simulator from the rewritten copy failed (does the tree compile?): %v\n%s", err, clip(string(out), 4000))
	}
	mo, err := exec.Command(simbin, "meta", prop).Output()
	if err != nil {
		infra("simbin meta: %v", err)
	}
	var m meta
	if err := json.Unmarshal(mo, &m); err != nil {
		infra("simbin meta: %v: %s", err, mo)
	}
	return &m
}

func propNeedsRace(p string) bool { return p == "C09" }

func clip(s string, n int) string {
	if len(s) > n {
		return s[:n] + "..."
	}
	return s
}

type aggregate struct {
	results    []*result
	violations []*result
	died       []*result
	mu         sync.Mutex
	stopped    bool
	wall       time.Duration
}

// runAll distributes run indices 0..runs-1 over worker processes.
func runAll(runs, workers int, m *meta) *aggregate {
	agg := &aggregate{}
	if workers > runs {
		workers = runs
	}
	if workers < 1 {
		workers = 1
	}
	next := 0
	var nmu sync.Mutex
	take := func() int {
		nmu.Lock()
		defer nmu.Unlock()
		if next >= runs || agg.stopped {
			return -1
		}
		i := next
		next++
		return i
	}
	kf := loadFindings()
	var wg sync.WaitGroup
	t0 := time.Now()
	deadline := t0.Add(wallCap())
	for w := 0; w < workers; w++ {
		wg.Add(1)
		go func() {
			defer wg.Done()
			for {
				if !workerLoop(agg, take, kf, deadline) {
					return
				}
			}
		}()
	}
	wg.Wait()
	agg.wall = time.Since(t0)
	sort.Slice(agg.results, func(i, j int) bool { return agg.results[i].Idx < agg.results[j].Idx })
	return agg
}

func wallCap() time.Duration {
	if s := os.Getenv("VERIF_WALLCAP_S"); s != "" {
		if v, err := strconv.Atoi(s); err == nil {
			return time.Duration(v) * time.Second
		}
	}
	if tier == "thorough" {
		return 3 * time.Hour
	}
	return 20 * time.Minute
}

// workerLoop runs one worker process until the indices are exhausted (returns false) or the worker dies
// (returns true: start another one).
func workerLoop(agg *aggregate, take func() int, kf *findingsFile, deadline time.Time) bool {
	cmd := exec.Command(simbin, "worker", prop, tier, strconv.FormatUint(baseSeed, 10))
	inf, _ := os.CreateTemp(scratch, "inflight-*.json")
	inf.Close()
	inflightPath := inf.Name()
	defer os.Remove(inflightPath)
	cmd.Env = append(os.Environ(), "GORACE=halt_on_error=1 exitcode=66", "GOTRACEBACK=single", "VSIM_INFLIGHT="+inflightPath, "VSIM_SCRATCH="+filepath.Join(scratch, "w"), knownEnv())
	stdin, _ := cmd.StdinPipe()
	stdout, _ := cmd.StdoutPipe()
	var stderr bytes.Buffer
	cmd.Stderr = &stderr
	if err := cmd.Start(); err != nil {
		infra("cannot start worker: %v", err)
	}
	rd := bufio.NewReaderSize(stdout, 1<<20)
	inflight := -1
	for {
		idx := take()
		if idx < 0 {
			stdin.Close()
			_ = cmd.Wait()
			return false
		}
		if time.Now().After(deadline) {
			agg.mu.Lock()
			agg.stopped = true
			agg.mu.Unlock()
			stdin.Close()
			_ = cmd.Wait()
			return false
		}
		inflight = idx
		fmt.Fprintf(stdin, "run %d\n", idx)
		type rdres struct {
			line []byte
			err  error
		}
		ch := make(chan rdres, 1)
		go func() {
			for {
				line, err := rd.ReadBytes('\n')
				if err != nil {
					ch <- rdres{nil, err}
					return
				}
				if bytes.HasPrefix(line, []byte("START ")) {
					continue
				}
				ch <- rdres{line, nil}
				return
			}
		}()
		var rr rdres
		select {
		case rr = <-ch:
		case <-time.After(watchdog()):
			_ = cmd.Process.Kill()
			_ = cmd.Wait()
			r := &result{Idx: inflight, Outcome: "hang", Note: "worker silent beyond the watchdog (a task that never reaches a scheduling point, or a real blocking call)"}
			r.Case = readInflight(inflightPath)
			agg.mu.Lock()
			agg.results = append(agg.results, r)
			agg.died = append(agg.died, r)
			agg.stopped = true // a dead or hung worker is triaged before more work is handed out
			agg.mu.Unlock()
			return true
		}
		if rr.err != nil {
			_ = cmd.Wait()
			r := &result{Idx: inflight, Outcome: "died", Note: clip(tailOf(stderr.String(), 3000), 3000)}
			r.Case = readInflight(inflightPath)
			agg.mu.Lock()
			agg.results = append(agg.results, r)
			agg.died = append(agg.died, r)
			if os.Getenv("VERIF_NOSTOP") == "" {
				agg.stopped = true
			}
			agg.mu.Unlock()
			return true
		}
		var r result
		if err := json.Unmarshal(rr.line, &r); err != nil {
			infra("bad worker output: %v: %s", err, clip(string(rr.line), 300))
		}
		agg.mu.Lock()
		agg.results = append(agg.results, &r)
		if r.Outcome == "violation" {
			agg.violations = append(agg.violations, &r)
			if matchFinding(kf, r.Violation, r.Case) == nil && os.Getenv("VERIF_NOSTOP") == "" {
				agg.stopped = true // an unknown violation: stop handing out work, triage it
			}
		}
		agg.mu.Unlock()
	}
}

// watchdog: a single run takes milliseconds to (thorough C12) tens of seconds; the limit is generous so that a
// loaded machine cannot turn a slow run into a verdict.
func watchdog() time.Duration {
	if tier == "thorough" {
		return 1800 * time.Second
	}
	return 300 * time.Second
}

func tailOf(s string, n int) string {
	// prefer the first fatal/panic/race line and what follows
	for _, marker := range []string{"WARNING: DATA RACE", "fatal error: runaway allocation", "fatal error:", "unexpected fault address", "panic:", "SIGBUS", "SIGSEGV"} {
		if i := strings.Index(s, marker); i >= 0 {
			s = s[i:]
			break
		}
	}
	if len(s) > n {
		return s[:n]
	}
	return s
}

func loadFindings() *findingsFile {
	var kf findingsFile
	b, err := os.ReadFile(filepath.Join(verifDir, "known_findings.json"))
	if err != nil {
		return &kf
	}
	if err := json.Unmarshal(b, &kf); err != nil {
		infra("known_findings.json: %v", err)
	}
	return &kf
}

func matchFinding(kf *findingsFile, v *violation, cs json.RawMessage) *finding {
	if v == nil {
		return nil
	}
	compact := new(bytes.Buffer)
	if len(cs) > 0 {
		_ = json.Compact(compact, cs)
	}
	for i := range kf.Findings {
		f := &kf.Findings[i]
		if f.Property != prop || f.Oracle != v.Oracle {
			continue
		}
		if f.SigRe != "" && !regexp.MustCompile(f.SigRe).MatchString(v.Sig) {
			continue
		}
		if f.DetailRe != "" && !regexp.MustCompile(f.DetailRe).MatchString(v.Detail) {
			continue
		}
		if f.CaseRe != "" && !regexp.MustCompile(f.CaseRe).Match(compact.Bytes()) {
			continue
		}
		return f
	}
	return nil
}

// execCase runs one case file in a fresh process. died=true if the process was killed by a fatal error/signal.
func execCase(cs []byte) (r *result, died bool, stderrTail string) {
	f, err := os.CreateTemp(scratch, "case-*.json")
	if err != nil {
		infra("tmp: %v", err)
	}
	f.Write(cs)
	f.Close()
	defer os.Remove(f.Name())
	cmd := exec.Command(simbin, "exec", f.Name())
	cmd.Env = append(os.Environ(), "GORACE=halt_on_error=1 exitcode=66", "GOTRACEBACK=single", "VSIM_SCRATCH="+filepath.Join(scratch, "w"), knownEnv())
	var stderr bytes.Buffer
	cmd.Stderr = &stderr
	done := make(chan struct{})
	var out []byte
	go func() { out, err = cmd.Output(); close(done) }()
	select {
	case <-done:
	case <-time.After(watchdog()):
		_ = cmd.Process.Kill()
		<-done
		return &result{Outcome: "hang"}, true, "watchdog"
	}
	if err != nil {
		return &result{Outcome: "died", Note: tailOf(stderr.String(), 3000)}, true, tailOf(stderr.String(), 3000)
	}
	var res result
	lines := bytes.Split(bytes.TrimSpace(out), []byte("\n"))
	if err := json.Unmarshal(lines[len(lines)-1], &res); err != nil {
		infra("bad exec output: %v: %s", err, clip(string(out), 300))
	}
	return &res, false, ""
}

// deathViolation turns a process death into a violation record. The signature is the first line of the fatal
// message without addresses.
func deathViolation(note string) *violation {
	first := strings.SplitN(strings.TrimSpace(note), "\n", 2)[0]
	first = regexp.MustCompile(`0x[0-9a-f]+`).ReplaceAllString(first, "ADDR")
	oracle := "process-death"
	if strings.Contains(note, "DATA RACE") {
		oracle = "data-race"
		first = raceSig(note)
	}
	return &violation{Prop: prop, Oracle: oracle, Sig: oracle + ":" + first, Detail: clip(note, 1500)}
}

// raceSig keys a race report by the unordered pair of innermost engine functions of its two stacks.
func raceSig(note string) string {
	parts := regexp.MustCompile(`(?m)^(Read|Write|Previous read|Previous write|Atomic|Previous atomic)[^\n]*\n`).Split(note, -1)
	var fns []string
	re := regexp.MustCompile(`(?m)^\s+(github\.com/XiXi-2024/xixi-kv[^\s(]*)\(`)
	for _, p := range parts[1:] {
		cut := p
		if i := strings.Index(cut, "\n\n"); i >= 0 {
			cut = cut[:i]
		}
		fn := "?"
		for _, m := range re.FindAllStringSubmatch(cut, -1) {
			if !strings.Contains(m[1], "/vsim/") {
				fn = strings.TrimPrefix(m[1], "github.com/XiXi-2024/xixi-kv")
				break
			}
		}
		fns = append(fns, fn)
		if len(fns) == 2 {
			break
		}
	}
	sort.Strings(fns)
	return strings.Join(fns, " <-> ")
}

// sameClass: shrinking must stay inside the violation's own class — the full signature, not just the oracle, so
// that a case cannot drift into a different (possibly known) finding of the same oracle while being minimised.
func sameClass(a, b *violation) bool {
	return a != nil && b != nil && a.Oracle == b.Oracle && a.Sig == b.Sig
}

// conclude triages violations, writes evidence, prints the verdict lines and returns the exit code.
func conclude(agg *aggregate, m *meta, start time.Time) int {
	kf := loadFindings()
	knownSeen := map[string]int{}
	var unknown []*result
	for _, r := range agg.results {
		for _, k := range r.Known {
			knownSeen[k.ID]++
		}
	}
	for _, r := range agg.violations {
		if f := matchFinding(kf, r.Violation, r.Case); f != nil {
			knownSeen[f.ID]++
		} else {
			unknown = append(unknown, r)
		}
	}
	// worker deaths: regenerate the case, confirm in a fresh process
	for _, d := range agg.died {
		cs := d.Case
		if cs == nil {
			writeEvidence(agg, m, start, knownSeen, 0)
			infra("run %d killed its worker (%s) and the case could not be regenerated", d.Idx, clip(d.Note, 300))
		}
		d.Case = cs
		d.Violation = deathViolation(d.Note)
		if d.Outcome == "hang" {
			d.Violation = &violation{Prop: prop, Oracle: "hang", Sig: "hang", Detail: d.Note}
		}
		if f := matchFinding(kf, d.Violation, d.Case); f != nil {
			knownSeen[f.ID]++
		} else {
			unknown = append(unknown, d)
		}
	}
	sort.Slice(unknown, func(i, j int) bool { return unknown[i].Idx < unknown[j].Idx })

	exit := 0
	reported := 0
	for _, u := range unknown {
		if reported >= 1 {
			break
		}
		cs, v, ok := minimise(u)
		if !ok {
			writeEvidence(agg, m, start, knownSeen, 0)
			fmt.Printf("NONDETERMINISTIC property=%s run=%d seed=%d: the failure did not reproduce from its case file (%s)\n", prop, u.Idx, u.Seed, clip(u.Violation.Detail, 300))
			cleanup()
			os.Exit(2)
		}
		if f := matchFinding(kf, v, cs); f != nil {
			knownSeen[f.ID]++
			continue
		}
		path := writeReplay(u, cs, v)
		fmt.Printf("VIOLATION property=%s replay=%s\n", prop, path)
		fmt.Printf("  oracle=%s run=%d seed=%d\n  %s\n", v.Oracle, u.Idx, u.Seed, clip(v.Detail, 600))
		reported++
		exit = 1
	}
	// every finding listed for this property is named, whether this run happened to meet it or not (the list is
	// what suppresses; the count says what this run saw)
	for _, f := range kf.Findings {
		if f.Property == prop {
			fmt.Printf("KNOWN-FINDING: property=%s %s [%s, seen in %d runs]\n", prop, f.What, f.ID, knownSeen[f.ID])
		}
	}
	nviol := reported
	ev := writeEvidence(agg, m, start, knownSeen, nviol)
	if exit == 0 {
		// vacuity self-checks
		if msg := vacuity(agg, m, ev); msg != "" {
			infra("%s", msg)
		}
		fmt.Printf("OK property=%s tier=%s seed=%d runs=%d nontrivial=%d wall=%.1fs\n", prop, tier, baseSeed, len(agg.results), ev.nontrivial, time.Since(start).Seconds())
	}
	return exit
}

func vacuity(agg *aggregate, m *meta, ev *evSummary) string {
	n := len(agg.results)
	if n == 0 {
		return "no run completed"
	}
	if ev.infra > 0 {
		return fmt.Sprintf("%d runs ended in a simulator-internal error, e.g.: %s", ev.infra, ev.infraNote)
	}
	if ev.aborted*4 > n {
		return fmt.Sprintf("%d of %d runs were abandoned in auxiliary steps: the check is vacuous on this tree (e.g. %s)", ev.aborted, n, ev.abortNote)
	}
	if n >= m.Quick/2 {
		for _, p := range m.Required {
			if ev.counters[p] == 0 {
				return fmt.Sprintf("reach probe %q stayed at zero over %d runs: the workload no longer exercises what the property is about", p, n)
			}
		}
	}
	return ""
}

func readInflight(path string) json.RawMessage {
	out, err := exec.Command(simbin, "case", path).Output()
	if err != nil || len(bytes.TrimSpace(out)) == 0 {
		return nil
	}
	return json.RawMessage(bytes.TrimSpace(out))
}

func writeReplay(u *result, cs json.RawMessage, v *violation) string {
	dir := filepath.Join(outDir(), "replays")
	_ = os.MkdirAll(dir, 0o755)
	path := filepath.Join(dir, fmt.Sprintf("%s-seed%d-run%d.json", prop, baseSeed, u.Idx))
	doc := map[string]interface{}{
		"property":           prop,
		"tier":               tier,
		"base_seed":          baseSeed,
		"run":                u.Idx,
		"run_seed":           u.Seed,
		"violation":          v,
		"case":               cs,
		"original_violation": u.Violation,
		"replay_cmd":         fmt.Sprintf("bin/vcheck %s --replay %s", prop, path),
	}
	b, _ := json.MarshalIndent(doc, "", " ")
	_ = os.WriteFile(path, b, 0o644)
	return path
}

func doReplay(path string, m *meta) int {
	b, err := os.ReadFile(path)
	if err != nil {
		infra("replay: %v", err)
	}
	var doc struct {
		Case      json.RawMessage `json:"case"`
		Violation *violation      `json:"violation"`
	}
	if err := json.Unmarshal(b, &doc); err != nil || len(doc.Case) == 0 {
		infra("replay file: %v", err)
	}
	tries := 1
	if m.Race || prop == "C15" {
		tries = 5
	}
	for t := 0; t < tries; t++ {
		r, died, tail := execCase(doc.Case)
		var v *violation
		if died {
			v = deathViolation(tail)
			if r.Outcome == "hang" {
				v = &violation{Prop: prop, Oracle: "hang", Sig: "hang", Detail: "watchdog"}
			}
		} else {
			v = r.Violation
		}
		if v != nil {
			fmt.Printf("VIOLATION property=%s replay=%s\n  oracle=%s\n  %s\n", prop, path, v.Oracle, clip(v.Detail, 800))
			cleanup()
			return 1
		}
		if r.Outcome != "ok" {
			fmt.Printf("replay outcome: %s %s\n", r.Outcome, r.Note)
		}
	}
	fmt.Printf("OK property=%s replay=%s: no violation on this tree\n", prop, path)
	cleanup()
	return 0
}

type evSummary struct {
	nontrivial int
	aborted    int
	infra      int
	abortNote  string
	infraNote  string
	counters   map[string]int64
}

func writeEvidence(agg *aggregate, m *meta, start time.Time, known map[string]int, nviol int) *evSummary {
	ev := &evSummary{counters: map[string]int64{}}
	distinct := map[uint64]bool{}
	nontriv := map[uint64]bool{}
	traces := map[uint64]bool{}
	states := map[uint64]bool{}
	outcomes := map[string]int{}
	var simNs int64
	var events uint64
	var samples []json.RawMessage
	for _, r := range agg.results {
		outcomes[r.Outcome]++
		distinct[r.CaseHash] = true
		if r.Nontrivial {
			nontriv[r.CaseHash] = true
		}
		for _, t := range r.Traces {
			traces[t] = true
		}
		for _, s := range r.States {
			states[s] = true
		}
		for k, v := range r.Counters {
			ev.counters[k] += v
		}
		simNs += r.SimNs
		events += r.Events
		if r.Outcome == "aborted_aux" {
			ev.aborted++
			if ev.abortNote == "" {
				ev.abortNote = clip(r.Note, 200)
			}
		}
		if r.Outcome == "infra" {
			ev.infra++
			if ev.infraNote == "" {
				ev.infraNote = fmt.Sprintf("run %d: %s", r.Idx, clip(r.Note, 300))
			}
		}
		if len(samples) < 3 && len(r.Case) > 0 && r.Outcome == "ok" && r.Nontrivial && len(r.Case) < 20000 {
			samples = append(samples, r.Case)
		}
	}
	if len(samples) == 0 {
		for _, r := range agg.results {
			if len(r.Case) > 0 && len(r.Case) < 40000 {
				samples = append(samples, r.Case)
				break
			}
		}
	}
	ev.nontrivial = len(nontriv)
	wall := time.Since(start).Seconds()
	simWall := agg.wall.Seconds()
	if simWall <= 0 {
		simWall = 1e-9
	}
	faults := map[string]int64{}
	for k, v := range ev.counters {
		if strings.HasPrefix(k, "fault_") {
			faults[k] = v
		}
	}
	cov := map[string]interface{}{
		"evaluations":            len(agg.results),
		"distinct_cases":         len(distinct),
		"distinct_nontrivial":    len(nontriv),
		"rule":                   m.Rule,
		"samples":                samples,
		"outcomes":               outcomes,
		"runs_per_hour":          int64(float64(len(agg.results)) / simWall * 3600),
		"seeds_per_hour":         int64(float64(len(agg.results)) / simWall * 3600),
		"simulated_time_s":       float64(simNs) / 1e9,
		"simulated_events":       events,
		"distinct_interleavings": len(traces),
		"interleaving_measure":   "distinct hashes of the sequence of (task, scheduling-point kind, lock or I/O class) of a run",
		"distinct_states":        len(states),
		"state_measure":          "distinct hashes of (reference map content, number of data files) observed after a step",
		"probes":                 ev.counters,
		"faults_fired":           faults,
		"known_findings_seen":    known,
		"real_components":        m.Real,
		"stubbed_components":     m.Stubbed,
		"not_reached":            m.NotReached,
		"images_evaluated":       ev.counters["crash_images"] + ev.counters["damage_images"],
		"images_note":            "fault_enumeration checks: number of crash / power-loss / damaged directory images on which the real Open ran (every journal position of every run is one process-crash image)",
		"exhaustive":             false,
		"base_seed":              baseSeed,
		"run_seed_derivation":    "runSeed = mix(VERIF_SEED, property, runIndex); runIndex in [0, evaluations)",
	}
	doc := map[string]interface{}{
		"property_id": prop,
		"tier":        tier,
		"seed":        baseSeed,
		"level":       m.Level,
		"coverage":    cov,
		"assumptions": m.Assumptions,
		"wall_s":      wall,
		"violations":  nviol,
		"technique":   m.Technique,
	}
	b, _ := json.MarshalIndent(doc, "", " ")
	dir := filepath.Join(outDir(), "evidence")
	_ = os.MkdirAll(dir, 0o755)
	if err := os.WriteFile(filepath.Join(dir, prop+".json"), b, 0o644); err != nil {
		fmt.Println("cannot write evidence:", err)
	}
	return ev
}

var _ = io.EOF
