package main

import (
	"bytes"
	"encoding/json"
	"os"
	"time"
)

// The minimiser works on the case as generic JSON, so that it needs no knowledge of the harness types: it
// drops operations (chunks, then singles) from every client program, setup list and sub-operation list,
// shortens values, moves the configuration towards the default one field at a time, drops whole clients and
// truncates explicit schedules. A candidate is kept when a fresh process executing it reports a violation of
// the same class (same oracle).

type jmap = map[string]interface{}

func decodeCase(cs []byte) jmap {
	d := json.NewDecoder(bytes.NewReader(cs))
	d.UseNumber()
	var m jmap
	if err := d.Decode(&m); err != nil {
		return nil
	}
	return m
}

func encodeCase(m jmap) []byte {
	b, _ := json.Marshal(m)
	return b
}

type minimiser struct {
	target   *violation
	tries    int
	execs    int
	deadline time.Time
	best     jmap
	bestV    *violation
	bestCase json.RawMessage // case as returned by the harness (with pinned crash/damage)
}

// try executes a candidate; true if it still violates in the same class.
func (mz *minimiser) try(c jmap) bool {
	if mz.execs > 600 || time.Now().After(mz.deadline) {
		return false
	}
	cand := encodeCase(c)
	for t := 0; t < mz.tries; t++ {
		mz.execs++
		r, died, tail := execCase(cand)
		var v *violation
		if died {
			if r.Outcome == "hang" {
				v = &violation{Prop: prop, Oracle: "hang", Sig: "hang", Detail: "watchdog"}
			} else {
				v = deathViolation(tail)
			}
		} else {
			v = r.Violation
		}
		if sameClass(v, mz.target) {
			mz.bestV = v
			if len(r.Case) > 0 {
				mz.bestCase = r.Case
			} else {
				mz.bestCase = cand
			}
			return true
		}
	}
	return false
}

func cloneJ(v interface{}) interface{} {
	switch x := v.(type) {
	case jmap:
		n := jmap{}
		for k, e := range x {
			n[k] = cloneJ(e)
		}
		return n
	case []interface{}:
		n := make([]interface{}, len(x))
		for i, e := range x {
			n[i] = cloneJ(e)
		}
		return n
	}
	return v
}

// listRefs enumerates accessors for every shrinkable list in the case.
type listRef struct {
	get func(c jmap) []interface{}
	set func(c jmap, l []interface{})
}

func subRefs(get func(c jmap) []interface{}) []listRef {
	var refs []listRef
	return refs
}

func collectLists(c jmap) []listRef {
	var refs []listRef
	if _, ok := c["setup"].([]interface{}); ok {
		refs = append(refs, listRef{
			get: func(c jmap) []interface{} { l, _ := c["setup"].([]interface{}); return l },
			set: func(c jmap, l []interface{}) { c["setup"] = l },
		})
	}
	cl, _ := c["clients"].([]interface{})
	for i := range cl {
		i := i
		refs = append(refs, listRef{
			get: func(c jmap) []interface{} {
				cl, _ := c["clients"].([]interface{})
				if i >= len(cl) {
					return nil
				}
				l, _ := cl[i].([]interface{})
				return l
			},
			set: func(c jmap, l []interface{}) {
				cl, _ := c["clients"].([]interface{})
				if i < len(cl) {
					cl[i] = l
				}
			},
		})
	}
	return refs
}

// shrinkList removes chunks of decreasing size from the list behind ref.
func (mz *minimiser) shrinkList(ref listRef) bool {
	changed := false
	n := len(ref.get(mz.best))
	for chunk := (n + 1) / 2; chunk >= 1; chunk /= 2 {
		for start := 0; start < len(ref.get(mz.best)); {
			l := ref.get(mz.best)
			end := start + chunk
			if end > len(l) {
				end = len(l)
			}
			cand := cloneJ(mz.best).(jmap)
			cl := ref.get(cand)
			nl := append(append([]interface{}{}, cl[:start]...), cl[end:]...)
			ref.set(cand, nl)
			if mz.try(cand) {
				mz.best = cand
				changed = true
			} else {
				start += chunk
			}
		}
		if chunk == 1 {
			break
		}
	}
	return changed
}

// forEachOp visits every operation object (including sub-operations).
func forEachOp(c jmap, f func(op jmap)) {
	var visit func(l []interface{})
	visit = func(l []interface{}) {
		for _, e := range l {
			if op, ok := e.(jmap); ok {
				f(op)
				if sub, ok := op["sub"].([]interface{}); ok {
					visit(sub)
				}
			}
		}
	}
	if l, ok := c["setup"].([]interface{}); ok {
		visit(l)
	}
	if cl, ok := c["clients"].([]interface{}); ok {
		for _, e := range cl {
			if l, ok := e.([]interface{}); ok {
				visit(l)
			}
		}
	}
}

func (mz *minimiser) shrinkSubs() bool {
	changed := false
	// address sub lists by visiting order
	for idx := 0; ; idx++ {
		count := 0
		var found bool
		forEachOp(mz.best, func(op jmap) {
			if _, ok := op["sub"].([]interface{}); ok {
				if count == idx {
					found = true
				}
				count++
			}
		})
		if !found {
			break
		}
		ref := listRef{
			get: func(c jmap) []interface{} {
				n := 0
				var out []interface{}
				forEachOp(c, func(op jmap) {
					if s, ok := op["sub"].([]interface{}); ok {
						if n == idx {
							out = s
						}
						n++
					}
				})
				return out
			},
			set: func(c jmap, l []interface{}) {
				n := 0
				forEachOp(c, func(op jmap) {
					if _, ok := op["sub"].([]interface{}); ok {
						if n == idx {
							op["sub"] = l
						}
						n++
					}
				})
			},
		}
		if mz.shrinkList(ref) {
			changed = true
		}
	}
	return changed
}

func (mz *minimiser) shrinkValues() bool {
	changed := false
	for idx := 0; ; idx++ {
		var cur int64 = -1
		n := 0
		forEachOp(mz.best, func(op jmap) {
			if v, ok := op["val"].(jmap); ok {
				if n == idx {
					if num, ok := v["len"].(json.Number); ok {
						cur, _ = num.Int64()
					}
				}
				n++
			}
		})
		if cur < 0 {
			break
		}
		for _, nl := range []int64{0, 1, 8, cur / 2} {
			if nl >= cur {
				continue
			}
			cand := cloneJ(mz.best).(jmap)
			k := 0
			forEachOp(cand, func(op jmap) {
				if v, ok := op["val"].(jmap); ok {
					if k == idx {
						v["len"] = json.Number(itoa(nl))
					}
					k++
				}
			})
			if mz.try(cand) {
				mz.best = cand
				changed = true
				break
			}
		}
	}
	return changed
}

func itoa(n int64) string {
	b, _ := json.Marshal(n)
	return string(b)
}

var defaultCfg = jmap{"index": json.Number("3"), "shards": json.Number("16"), "io": json.Number("0"),
	"filesize": json.Number("1048576"), "sync": json.Number("0"), "bps": json.Number("0")}

func (mz *minimiser) shrinkConfig() bool {
	changed := false
	cfg, ok := mz.best["cfg"].(jmap)
	if !ok {
		return false
	}
	for _, f := range []string{"io", "index", "shards", "sync", "bps", "filesize"} {
		if encodeEq(cfg[f], defaultCfg[f]) {
			continue
		}
		cand := cloneJ(mz.best).(jmap)
		cand["cfg"].(jmap)[f] = defaultCfg[f]
		// restart configurations that equal the old main configuration follow it
		if mz.try(cand) {
			mz.best = cand
			cfg = mz.best["cfg"].(jmap)
			changed = true
		}
	}
	// restart configs: try replacing each by the main config
	for idx := 0; ; idx++ {
		n := 0
		found := false
		forEachOp(mz.best, func(op jmap) {
			if _, ok := op["cfg"].(jmap); ok {
				if n == idx {
					found = true
				}
				n++
			}
		})
		if !found {
			break
		}
		cand := cloneJ(mz.best).(jmap)
		k := 0
		same := false
		forEachOp(cand, func(op jmap) {
			if c, ok := op["cfg"].(jmap); ok {
				if k == idx {
					if encodeEq(c, cand["cfg"]) {
						same = true
					}
					op["cfg"] = cloneJ(cand["cfg"])
				}
				k++
			}
		})
		if !same && mz.try(cand) {
			mz.best = cand
			changed = true
		}
	}
	return changed
}

func encodeEq(a, b interface{}) bool {
	x, _ := json.Marshal(a)
	y, _ := json.Marshal(b)
	return bytes.Equal(x, y)
}

func (mz *minimiser) dropClients() bool {
	changed := false
	for {
		cl, _ := mz.best["clients"].([]interface{})
		if len(cl) <= 1 {
			break
		}
		did := false
		for i := len(cl) - 1; i >= 0; i-- {
			cand := cloneJ(mz.best).(jmap)
			ccl := cand["clients"].([]interface{})
			cand["clients"] = append(append([]interface{}{}, ccl[:i]...), ccl[i+1:]...)
			if mz.try(cand) {
				mz.best = cand
				changed, did = true, true
				break
			}
		}
		if !did {
			break
		}
	}
	return changed
}

func (mz *minimiser) shrinkSchedule() bool {
	sched, ok := mz.best["sched"].(jmap)
	if !ok {
		return false
	}
	ch, ok := sched["choices"].([]interface{})
	if !ok || len(ch) == 0 {
		return false
	}
	changed := false
	for n := len(ch) / 2; n >= 0 && len(ch) > 0; n /= 2 {
		cand := cloneJ(mz.best).(jmap)
		cand["sched"].(jmap)["choices"] = append([]interface{}{}, ch[:n]...)
		if mz.try(cand) {
			mz.best = cand
			ch = ch[:n]
			changed = true
		} else {
			break
		}
		if n == 0 {
			break
		}
	}
	return changed
}

// minimise shrinks the failing case of u. ok=false when the failure does not even reproduce from its own case.
func minimise(u *result) (json.RawMessage, *violation, bool) {
	mz := &minimiser{target: u.Violation, tries: 1, deadline: time.Now().Add(150 * time.Second)}
	if u.Violation.Oracle == "data-race" || prop == "C15" {
		mz.tries = 5
	}
	orig := decodeCase(u.Case)
	if orig == nil {
		return nil, nil, false
	}
	// candidates are explored with the crash/damage pin removed (positions shift when operations are dropped)
	unpinned := cloneJ(orig).(jmap)
	delete(unpinned, "crash")
	delete(unpinned, "damage")
	if !mz.try(orig) {
		if !mz.try(unpinned) {
			return nil, nil, false
		}
	}
	firstV := mz.bestV
	firstCase := mz.bestCase
	if os.Getenv("VERIF_NOMIN") != "" {
		return firstCase, firstV, true
	}
	mz.best = unpinned
	if !mz.try(unpinned) {
		// only the pinned form reproduces: report it unminimised
		return firstCase, firstV, true
	}
	for round := 0; round < 4; round++ {
		changed := false
		if mz.dropClients() {
			changed = true
		}
		for _, ref := range collectLists(mz.best) {
			if mz.shrinkList(ref) {
				changed = true
			}
		}
		if mz.shrinkSubs() {
			changed = true
		}
		if mz.shrinkSchedule() {
			changed = true
		}
		if mz.shrinkConfig() {
			changed = true
		}
		if mz.shrinkValues() {
			changed = true
		}
		if !changed {
			break
		}
	}
	// final confirmation in a fresh process, which also yields the pinned case
	mz.deadline = time.Now().Add(60 * time.Second)
	mz.execs = 0
	if mz.try(mz.best) {
		return mz.bestCase, mz.bestV, true
	}
	return firstCase, firstV, true
}
