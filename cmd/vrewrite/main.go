// vrewrite installs the simulator's seams into a scratch copy of the engine. It never touches a statement of
// engine logic: it (1) rebinds imports of os, sync, time, syscall, github.com/edsrzf/mmap-go and
// github.com/bwmarrin/snowflake to the simulator's shadow packages, and (2) wraps every `range` over a
// map-typed expression in vrt.MapIter so that map iteration order is a function of the run's seed. It works on
// the type-checked AST, so it applies wherever such a construct occurs, whatever shape the code has.
//
// usage: vrewrite <dir-of-scratch-copy> <pkgdir>...   (pkgdir relative to the copy, e.g. . index datafile)
package main

import (
	"bytes"
	"fmt"
	"go/ast"
	"go/format"
	"go/token"
	"go/types"
	"os"
	"path/filepath"
	"strconv"
	"strings"

	"golang.org/x/tools/go/ast/astutil"
	"golang.org/x/tools/go/packages"
)

const vsim = "github.com/XiXi-2024/xixi-kv/vsim"

var rebind = map[string]string{
	"os":                            vsim + "/shim/os",
	"sync":                          vsim + "/shim/sync",
	"time":                          vsim + "/shim/time",
	"syscall":                       vsim + "/shim/syscall",
	"github.com/edsrzf/mmap-go":     vsim + "/shim/mmap",
	"github.com/bwmarrin/snowflake": vsim + "/shim/snowflake",
	"github.com/gofrs/flock":        vsim + "/flockcopy", // a copy of the library with the same seams (mkscratch.sh)
}

func main() {
	if len(os.Args) < 3 {
		fmt.Fprintln(os.Stderr, "usage: vrewrite <dir> <pkgdir>...")
		os.Exit(2)
	}
	root := os.Args[1]
	var patterns []string
	for _, p := range os.Args[2:] {
		patterns = append(patterns, "./"+filepath.ToSlash(filepath.Clean(p)))
	}
	cfg := &packages.Config{
		Mode: packages.NeedName | packages.NeedFiles | packages.NeedCompiledGoFiles | packages.NeedSyntax |
			packages.NeedTypes | packages.NeedTypesInfo | packages.NeedImports | packages.NeedDeps,
		Dir:   root,
		Tests: false,
		Env:   append(os.Environ(), "GOFLAGS=-mod=mod", "GOPROXY=off", "GOSUMDB=off"),
	}
	pkgs, err := packages.Load(cfg, patterns...)
	if err != nil {
		fmt.Fprintln(os.Stderr, "vrewrite: load:", err)
		os.Exit(2)
	}
	bad := false
	for _, p := range pkgs {
		for _, e := range p.Errors {
			fmt.Fprintln(os.Stderr, "vrewrite:", e)
			bad = true
		}
	}
	if bad {
		os.Exit(2)
	}
	var nImports, nRanges, nFiles int
	var warnings []string
	for _, p := range pkgs {
		for i, f := range p.Syntax {
			fname := p.CompiledGoFiles[i]
			if strings.HasSuffix(fname, "_test.go") {
				continue
			}
			changed := false
			// (2) map ranges
			usedIter := false
			ast.Inspect(f, func(n ast.Node) bool {
				switch x := n.(type) {
				case *ast.RangeStmt:
					tv, ok := p.TypesInfo.Types[x.X]
					if !ok {
						return true
					}
					if _, isMap := tv.Type.Underlying().(*types.Map); isMap {
						x.X = &ast.CallExpr{
							Fun:  &ast.SelectorExpr{X: ast.NewIdent("vsimvrt"), Sel: ast.NewIdent("MapIter")},
							Args: []ast.Expr{x.X},
						}
						nRanges++
						usedIter = true
						changed = true
					}
				case *ast.GoStmt:
					warnings = append(warnings, fmt.Sprintf("%s: go statement left real", p.Fset.Position(x.Pos())))
				case *ast.SelectStmt:
					warnings = append(warnings, fmt.Sprintf("%s: select statement left real", p.Fset.Position(x.Pos())))
				}
				return true
			})
			// (1) import rebinding
			for _, imp := range f.Imports {
				path, _ := strconv.Unquote(imp.Path.Value)
				if to, ok := rebind[path]; ok {
					// keep the local name the file uses
					local := ""
					if imp.Name != nil {
						local = imp.Name.Name
					} else if path == "github.com/edsrzf/mmap-go" {
						local = "mmap"
					} else if path == "github.com/gofrs/flock" {
						local = "flock"
					}
					imp.Path.Value = strconv.Quote(to)
					if local != "" && imp.Name == nil {
						imp.Name = ast.NewIdent(local)
					}
					imp.EndPos = 0
					nImports++
					changed = true
				}
			}
			if usedIter {
				astutil.AddNamedImport(p.Fset, f, "vsimvrt", vsim+"/vrt")
			}
			if !changed {
				continue
			}
			var buf bytes.Buffer
			if err := format.Node(&buf, p.Fset, f); err != nil {
				fmt.Fprintln(os.Stderr, "vrewrite: format", fname, err)
				os.Exit(2)
			}
			if err := os.WriteFile(fname, buf.Bytes(), 0o644); err != nil {
				fmt.Fprintln(os.Stderr, "vrewrite:", err)
				os.Exit(2)
			}
			nFiles++
		}
	}
	_ = token.NoPos
	for _, w := range warnings {
		fmt.Fprintln(os.Stderr, "vrewrite: warning:", w)
	}
	fmt.Printf("vrewrite: %d files, %d imports rebound, %d map ranges wrapped\n", nFiles, nImports, nRanges)
}
